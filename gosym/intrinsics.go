package main

import (
	"fmt"
)

// Harness API (functions named v* of the shim file that is overlaid into the package under test).
// Natively they have real bodies (replay); here they are intercepted by name.

// Inputs are numbered per path (the k-th draw of an execution is input k, exactly as in the native replay).
func (e *Engine) freshVar(p *Path, w int, kind string) *Term {
	k := p.st.nDraw
	p.st.nDraw++
	if e.isConc {
		var v uint64
		if k < len(e.concrete) {
			v = e.concrete[k]
		}
		return e.Const(w, v)
	}
	for len(e.vars) <= k {
		e.vars = append(e.vars, nil)
		e.varKinds = append(e.varKinds, "")
	}
	if e.vars[k] == nil {
		e.vars[k] = e.Var(fmt.Sprintf("in%d", k), w)
		e.varKinds[k] = kind
		if e.sol != nil {
			e.sol.define(e.vars[k]) // declared at level 0 so that models can always be read
		}
	} else if e.vars[k].w != w {
		unsup("input %d is drawn with different widths on different paths", k)
	}
	if k < len(e.pin) {
		// debugging aid: symbolic run with the inputs pinned by assumptions
		p.st.G = e.And(p.st.G, e.Eq(e.vars[k], e.Const(w, e.pin[k])))
	}
	return e.vars[k]
}

func (e *Engine) assume(p *Path, c *Term) {
	p.st.G = e.And(p.st.G, c)
}

// drawByte: a symbolic byte of the alphabet (concrete replay: same mapping as the native shim)
func (e *Engine) drawByte(p *Path, alpha StrV) *Term {
	if !e.isConc {
		n := e.concLen(alpha.len, "alphabet")
		if n >= 1 && n <= 32 {
			// a byte of a small alphabet is a selector: value = ite(sel=0, c0, ite(sel=1, c1, ...)), so that
			// comparisons and table look-ups on it fold to conditions on the selector
			letters := make([]uint64, n)
			for a := 0; a < n; a++ {
				ch := asTerm(e.loadStrByte(p.st, alpha, e.Const(64, uint64(a))))
				if !ch.IsConst() {
					unsup("symbolic alphabet")
				}
				letters[a] = ch.val
			}
			sel := e.freshVar(p, 8, "byte")
			k := p.st.nDraw - 1
			if old, ok := e.varAlpha[k]; ok && len(old) != n {
				unsup("input %d drawn from different alphabets on different paths", k)
			}
			e.varAlpha[k] = letters
			e.assume(p, e.Cmp(OpUlt, sel, e.Const(8, uint64(n))))
			val := e.Const(8, letters[n-1])
			for a := n - 2; a >= 0; a-- {
				val = e.Ite(e.Eq(sel, e.Const(8, uint64(a))), e.Const(8, letters[a]), val)
			}
			return val
		}
		v := e.freshVar(p, 8, "byte")
		e.alphabetConstraint(p, v, alpha)
		return v
	}
	v := e.freshVar(p, 8, "byte")
	n := e.concLen(alpha.len, "alphabet")
	if n == 0 {
		return v
	}
	k := p.st.nDraw - 1
	var raw uint64
	if k < len(e.concrete) {
		raw = e.concrete[k]
	}
	for a := 0; a < n; a++ {
		ch := asTerm(e.loadStrByte(p.st, alpha, e.Const(64, uint64(a))))
		if ch.val == uint64(byte(raw)) {
			return v
		}
	}
	return asTerm(e.loadStrByte(p.st, alpha, e.Const(64, raw%uint64(n))))
}

func (e *Engine) alphabetConstraint(p *Path, v *Term, alpha StrV) {
	n := e.concLen(alpha.len, "alphabet")
	if n == 0 {
		return
	}
	ok := e.False
	for a := 0; a < n; a++ {
		ch := asTerm(e.loadStrByte(p.st, alpha, e.Const(64, uint64(a))))
		ok = e.Or(ok, e.Eq(v, ch))
	}
	e.assume(p, ok)
}

func (e *Engine) intrinsic(p *Path, name string, args []Value, depth int) ([]Result, bool) {
	switch name {
	case "vByte": // vByte(alphabet string) byte
		return e.one(p, e.drawByte(p, args[0].(StrV))), true
	case "vBytes": // vBytes(n int, alphabet string) []byte
		n := e.concLen(asTerm(args[0]), "vBytes")
		cells := make([]Value, n)
		for k := range cells {
			cells[k] = e.drawByte(p, args[1].(StrV))
		}
		id := e.newObj(p.st, cells)
		return e.one(p, SliceV{e.ptrTo(id, 0), e.Const(64, uint64(n)), e.Const(64, uint64(n))}), true
	case "vU64s", "vInts":
		n := e.concLen(asTerm(args[0]), name)
		cells := make([]Value, n)
		for k := range cells {
			cells[k] = e.freshVar(p, 64, "u64")
		}
		id := e.newObj(p.st, cells)
		return e.one(p, SliceV{e.ptrTo(id, 0), e.Const(64, uint64(n)), e.Const(64, uint64(n))}), true
	case "vU64":
		return e.one(p, e.freshVar(p, 64, "u64")), true
	case "vU8":
		return e.one(p, e.freshVar(p, 8, "byte")), true
	case "vInt": // vInt(lo, hi int) int : lo <= v <= hi
		v := e.freshVar(p, 64, "int")
		lo, hi := asTerm(args[0]), asTerm(args[1])
		if e.isConc && lo.IsConst() && hi.IsConst() {
			x, l, h := int64(v.val), int64(lo.val), int64(hi.val)
			if x < l || x > h {
				span := uint64(h-l) + 1
				if span != 0 {
					x = l + int64(uint64(x)%span)
				}
			}
			return e.one(p, e.Const(64, uint64(x))), true
		}
		e.assume(p, e.And(e.Cmp(OpSle, lo, v), e.Cmp(OpSle, v, hi)))
		return e.one(p, v), true
	case "vBool":
		v := e.freshVar(p, 8, "bool")
		if e.isConc {
			k := p.st.nDraw - 1
			var raw uint64
			if k < len(e.concrete) {
				raw = e.concrete[k]
			}
			return e.one(p, e.BoolC(raw%2 == 1)), true
		}
		e.assume(p, e.Cmp(OpUle, v, e.Const(8, 1)))
		return e.one(p, e.Eq(v, e.Const(8, 1))), true
	case "vDump": // debugging aid: vDump(label string, v interface{})
		fmt.Printf("DUMP %s G=%s : %s\n", e.strOf(p, args[0]), e.showTerm(p.st.G, 3), e.showValue(p.st, args[1], 4))
		return e.one(p, nil), true
	case "vNativeInit", "vLoadReplay":
		return e.one(p, nil), true
	case "vSymbolic":
		return e.one(p, e.True), true
	case "vRunPending":
		return e.runPending(p, depth), true
	case "vAssume":
		e.assume(p, asTerm(args[0]))
		return e.one(p, nil), true
	case "vSkip": // instance not meaningful for these arguments
		e.skipped = true
		p.st.G = e.False
		return nil, true
	case "vAssert":
		c := asTerm(args[0])
		lbl := e.strOf(p, args[1])
		g := e.And(p.st.G, e.Not(c))
		e.asserts = append(e.asserts, Outcome{g, lbl, ""})
		// continue under the assertion (later assertions are not blamed for the same failure)
		return e.one(p, nil), true
	case "vReach":
		e.reaches = append(e.reaches, Outcome{p.st.G, e.strOf(p, args[0]), ""})
		return e.one(p, nil), true
	case "vObserve":
		e.observes = append(e.observes, Observe{e.strOf(p, args[0]), p.st.G, asTerm(args[1])})
		return e.one(p, nil), true
	case "vCatch": // vCatch(f func()) int : 0 normal return, 1 panic, 2 fatal (logrus Fatal / os.Exit)
		f, ok := args[0].(FuncV)
		if !ok || f.fn == nil {
			unsup("vCatch of non-function")
		}
		fr := &catchFrame{}
		e.catch = append(e.catch, fr)
		var rs []Result
		func() {
			defer func() { e.catch = e.catch[:len(e.catch)-1] }()
			rs = e.callFn(p, f.fn, nil, f.env, depth, nil)
		}()
		var out []Result
		for _, r := range rs {
			out = append(out, Result{r.st, e.Const(64, 0)})
		}
		for _, c := range fr.caught {
			out = append(out, Result{c.st, e.Const(64, uint64(c.kind))})
		}
		return e.mergeResults(out), true
	case "vBlocks": // vBlocks(f func()) bool : would f block for ever if no other goroutine ran from now on?
		// (f runs on a scratch copy of the state without pending tasks; its effects are discarded)
		f, ok := args[0].(FuncV)
		if !ok || f.fn == nil {
			unsup("vBlocks of non-function")
		}
		scratch := e.fork(p.st)
		scratch.tasks = nil
		blocked := false
		nA, nP, nF, nR, nU, nO := len(e.asserts), len(e.panics), len(e.fatals), len(e.reaches), len(e.unwinds), len(e.observes)
		func() {
			defer func() {
				if r := recover(); r != nil {
					if _, isB := r.(blockedErr); isB {
						blocked = true
						return
					}
					panic(r)
				}
			}()
			e.callFn(&Path{st: scratch}, f.fn, nil, f.env, depth, nil)
		}()
		e.asserts, e.panics, e.fatals, e.reaches, e.unwinds, e.observes = e.asserts[:nA], e.panics[:nP], e.fatals[:nF], e.reaches[:nR], e.unwinds[:nU], e.observes[:nO]
		return e.one(p, e.BoolC(blocked)), true
	case "vUF": // vUF(name string, a ...uint64) uint64 : uninterpreted function (commutative argument order normalised)
		nm := e.strOf(p, args[0])
		ops := e.variadic(p, args[1])
		ts := make([]*Term, len(ops))
		for i, o := range ops {
			ts[i] = asTerm(o)
		}
		if (nm == "mulhi64" || nm == "mullo64") && len(ts) == 2 && ts[0].id > ts[1].id {
			ts[0], ts[1] = ts[1], ts[0]
		}
		return e.one(p, e.UF(nm, 64, ts...)), true
	case "vMulExact": // exact 64x64->128 product; cheap when one factor is concrete
		a, b := asTerm(args[0]), asTerm(args[1])
		if b.IsConst() {
			a, b = b, a
		}
		var hi, lo *Term
		if a.IsConst() {
			hi, lo = e.mulByConst(a.val, b)
		} else {
			hi, lo = e.mulFull(a, b)
		}
		return e.one(p, TupleV{hi, lo}), true
	case "vHavoc": // vHavoc(b []byte): contents become unconstrained (not replayable inputs)
		s := args[0].(SliceV)
		n := e.concLen(s.cap, "vHavoc")
		for k := 0; k < n; k++ {
			e.nPoison++
			e.store(p.st, e.offsetPtr(s.p, e.Const(64, uint64(k))), e.Var(fmt.Sprintf("poison%d", e.nPoison), 8))
		}
		return e.one(p, nil), true
	case "vSameObject": // vSameObject(a, b []byte) bool: do the two slices share backing memory
		a, b := args[0].(SliceV), args[1].(SliceV)
		same := e.False
		for _, x := range a.p.alts {
			for _, y := range b.p.alts {
				if x.obj == y.obj {
					same = e.Or(same, e.And(x.g, y.g))
				}
			}
		}
		return e.one(p, same), true
	}
	return nil, false
}

func (e *Engine) strOf(p *Path, v Value) string {
	s, ok := v.(StrV)
	if !ok {
		return "?"
	}
	if !s.len.IsConst() {
		return "?"
	}
	b := make([]byte, s.len.val)
	for k := range b {
		t, ok := e.loadStrByte(p.st, s, e.Const(64, uint64(k))).(*Term)
		if !ok || !t.IsConst() {
			b[k] = '?'
			continue
		}
		b[k] = byte(t.val)
	}
	return string(b)
}

// concrete string or ok=false
func (e *Engine) concStr(st *State, v Value) (string, bool) {
	s, ok := v.(StrV)
	if !ok || !s.len.IsConst() {
		return "", false
	}
	b := make([]byte, s.len.val)
	for k := range b {
		t, ok := e.loadStrByte(st, s, e.Const(64, uint64(k))).(*Term)
		if !ok || !t.IsConst() {
			return "", false
		}
		b[k] = byte(t.val)
	}
	return string(b), true
}

func (e *Engine) showTerm(t *Term, depth int) string {
	switch t.op {
	case OpConst:
		if t.w == 0 {
			if t.val != 0 {
				return "T"
			}
			return "F"
		}
		return fmt.Sprint(int64(t.val))
	case OpVar:
		return t.name
	}
	if depth <= 0 {
		return fmt.Sprintf("t%d", t.id)
	}
	s := "(" + opName[t.op]
	if t.op == OpExtract {
		s = fmt.Sprintf("(ext%d:%d", t.hi, t.lo)
	}
	for _, a := range t.args {
		s += " " + e.showTerm(a, depth-1)
	}
	return s + ")"
}

func (e *Engine) showValue(st *State, v Value, depth int) string {
	switch x := v.(type) {
	case *Term:
		return e.showTerm(x, 4)
	case Ptr:
		s := "ptr{"
		for _, al := range x.alts {
			s += fmt.Sprintf("[%s]->o%d+%s%v ", e.showTerm(al.g, 3), al.obj, e.showTerm(al.off, 2), al.path)
		}
		return s + "}"
	case SliceV:
		s := fmt.Sprintf("slice(len=%s cap=%s %s)", e.showTerm(x.len, 3), e.showTerm(x.cap, 3), e.showValue(st, x.p, depth))
		if depth > 0 && x.len.IsConst() && len(x.p.alts) > 0 {
			s += "["
			for k := 0; k < int(x.len.val) && k < 8; k++ {
				s += e.showValue(st, e.elemAt(st, x.p, k), depth-1) + ", "
			}
			s += "]"
		}
		return s
	case StructV:
		s := "{"
		for _, f := range x.f {
			s += e.showValue(st, f, depth-1) + "; "
		}
		return s + "}"
	case IfaceV:
		s := "iface{"
		for _, al := range x.alts {
			s += fmt.Sprintf("[%s]%v:%s ", e.showTerm(al.g, 2), al.typ, e.showValue(st, al.val, depth-1))
		}
		return s + "}"
	}
	return fmt.Sprintf("%T", v)
}
