package main

import (
	"hash/crc32"
	"fmt"
	"go/types"
	"math"
	"strconv"
	"strings"

	"golang.org/x/tools/go/ssa"
)

// Environment models: functions that are not executed from their SSA (no body, reflection, I/O, logging,
// synchronisation).  Every model that ran is listed in the evidence (e.modelsUsed).

func pkgPathOf(fn *ssa.Function) string {
	if fn.Pkg != nil {
		return fn.Pkg.Pkg.Path()
	}
	if o := fn.Origin(); o != nil && o.Pkg != nil {
		return o.Pkg.Pkg.Path()
	}
	if fn.Signature != nil && fn.Signature.Recv() != nil {
		t := fn.Signature.Recv().Type()
		if pt, ok := t.(*types.Pointer); ok {
			t = pt.Elem()
		}
		if n, ok := t.(*types.Named); ok && n.Obj().Pkg() != nil {
			return n.Obj().Pkg().Path()
		}
	}
	if fn.Object() != nil && fn.Object().Pkg() != nil {
		return fn.Object().Pkg().Path()
	}
	return ""
}

func (e *Engine) zeroResult(p *Path, rt types.Type) Value {
	if rt == nil {
		return nil
	}
	if t, ok := rt.(*types.Tuple); ok && t.Len() == 0 {
		return nil
	}
	return e.zero(p.st, rt)
}

func (e *Engine) used(name string) { e.modelsUsed[name]++ }

func (e *Engine) model(p *Path, fn *ssa.Function, full string, args []Value, depth int, rt types.Type) ([]Result, bool) {
	pkg := pkgPathOf(fn)
	name := fn.Name()
	if rt == nil {
		rt = fn.Signature.Results()
	}
	switch {
	case strings.HasSuffix(pkg, "sirupsen/logrus") || pkg == "log":
		e.used(pkg + " (logging: Fatal*/Panic* end the path, the rest is a no-op)")
		if strings.HasPrefix(name, "Fatal") || name == "Exit" {
			e.abort(p, e.True, 2, pkg+"."+name)
			return nil, true
		}
		if strings.HasPrefix(name, "Panic") {
			e.abort(p, e.True, 1, pkg+"."+name)
			return nil, true
		}
		return e.one(p, e.zeroResult(p, rt)), true
	case strings.Contains(pkg, "schollz/progressbar"):
		e.used("progressbar (no-op)")
		return e.one(p, e.zeroResult(p, rt)), true
	case pkg == "os" && name == "Exit":
		e.abort(p, e.True, 2, "os.Exit")
		return nil, true
	case pkg == "sync":
		return e.modelSync(p, fn, full, args, depth, rt)
	case pkg == "sync/atomic" || pkg == "internal/runtime/atomic":
		if r, ok := e.modelAtomic(p, fn, args, rt); ok {
			return r, true
		}
	case pkg == "time":
		switch name {
		case "Sleep":
			e.used("time.Sleep (no-op)")
			return e.one(p, nil), true
		case "Now", "Since":
			e.used("time." + name + " (opaque)")
			return e.one(p, e.zeroResult(p, rt)), true
		}
	case pkg == "runtime" || pkg == "runtime/debug":
		switch name {
		case "GC", "Gosched", "KeepAlive", "SetFinalizer", "FreeOSMemory", "LockOSThread", "UnlockOSThread":
			return e.one(p, e.zeroResult(p, rt)), true
		case "NumCPU", "GOMAXPROCS", "NumGoroutine":
			e.used("runtime." + name + " = 1")
			return e.one(p, e.Const(64, 1)), true
		}
	case pkg == "math":
		if r, ok := e.modelMath(p, name, args); ok {
			return r, true
		}
	case pkg == "unsafe":
		// handled through builtins in go/ssa; nothing here
	case pkg == "internal/bytealg":
		if r, ok := e.modelBytealg(p, name, args); ok {
			return r, true
		}
	case pkg == "internal/race" || pkg == "internal/godebug" || pkg == "internal/msan" || pkg == "internal/asan":
		return e.one(p, e.zeroResult(p, rt)), true
	case pkg == "fmt":
		if r, ok := e.modelFmt(p, fn, name, args, rt); ok {
			return r, true
		}
	case pkg == "strconv":
		if r, ok := e.modelStrconv(p, name, args, rt); ok {
			return r, true
		}
	case pkg == "hash/crc32" && name == "ChecksumIEEE":
		// concrete input: computed directly (the slicing-by-8 tables cost 3e7 block visits from SSA); symbolic
		// input falls through to the SSA of the package
		if sl, ok := args[0].(SliceV); ok && sl.len.IsConst() {
			n := int(sl.len.val)
			buf := make([]byte, n)
			conc := true
			for k := 0; k < n && conc; k++ {
				b := asTerm(e.load(p.st, e.offsetPtr(sl.p, e.Const(64, uint64(k)))))
				if !b.IsConst() {
					conc = false
				}
				buf[k] = byte(b.val)
			}
			if conc {
				e.used("hash/crc32.ChecksumIEEE on concrete bytes (computed natively)")
				return e.one(p, e.Const(32, uint64(crc32.ChecksumIEEE(buf)))), true
			}
		}
	case pkg == "sort":
		if name == "Slice" || name == "SliceStable" {
			return e.modelSortSlice(p, args, depth, name == "SliceStable"), true
		}
	case strings.HasSuffix(pkg, "tevino/abool/v2") || strings.HasSuffix(pkg, "tevino/abool"):
		// executes from SSA on top of the atomic model
	}
	switch full {
	case "unsafe.String", "unsafe.StringData", "unsafe.Slice", "unsafe.SliceData":
	case "strings.(*Builder).copyCheck", "(*strings.Builder).copyCheck":
		return e.one(p, nil), true
	case "internal/abi.NoEscape", "internal/abi.Escape":
		return e.one(p, args[0]), true
	case "errors.Is":
		// error identity only (no unwrapping chains of symbolic depth)
		a, okA := args[0].(IfaceV)
		b, okB := args[1].(IfaceV)
		if okA && okB {
			e.used("errors.Is (identity comparison, no Unwrap)")
			return e.one(p, e.valueEq(p, a, b, nil)), true
		}
	}
	return nil, false
}

// ----- sync -----

func (e *Engine) modelSync(p *Path, fn *ssa.Function, full string, args []Value, depth int, rt types.Type) ([]Result, bool) {
	recv := ""
	if r := fn.Signature.Recv(); r != nil {
		recv = r.Type().String()
	}
	name := fn.Name()
	switch recv {
	case "*sync.Mutex", "*sync.RWMutex":
		e.used("sync.Mutex/RWMutex (no-op: schedules are not explored)")
		if name == "TryLock" || name == "TryRLock" {
			return e.one(p, e.True), true
		}
		return e.one(p, e.zeroResult(p, rt)), true
	case "*sync.WaitGroup":
		e.used("sync.WaitGroup (counter kept in the object; Wait runs pending goroutines, oldest first, until the counter is zero)")
		if name == "Go" {
			return nil, false
		}
		recvp := e.asPtr(args[0])
		if !e.derefCheck(p, recvp, "WaitGroup") {
			return nil, true
		}
		cnt := Ptr{}
		for _, al := range recvp.alts {
			cnt.alts = append(cnt.alts, PtrAlt{al.g, al.obj, al.off, append(append([]int(nil), al.path...), 2)})
		}
		switch name {
		case "Add":
			d := asTerm(args[1])
			e.store(p.st, cnt, e.Bin(OpAdd, asTerm(e.load(p.st, cnt)), e.Extract(d, 31, 0)))
			return e.one(p, nil), true
		case "Done":
			e.store(p.st, cnt, e.Bin(OpSub, asTerm(e.load(p.st, cnt)), e.Const(32, 1)))
			return e.one(p, nil), true
		case "Wait":
			var out []Result
			work := []*State{p.st}
			guard := 0
			for len(work) > 0 {
				st := work[len(work)-1]
				work = work[:len(work)-1]
				for {
					guard++
					if guard > 20000 {
						unsup("WaitGroup.Wait: no progress")
					}
					c := asTerm(e.load(st, cnt))
					if !c.IsConst() {
						unsup("WaitGroup counter is symbolic")
					}
					if c.val == 0 {
						out = append(out, Result{st, nil})
						break
					}
					if len(st.tasks) == 0 {
						panic(blockedErr{"WaitGroup.Wait would block forever", st.G})
					}
					sts := e.runOneTask(st, depth)
					if len(sts) == 0 {
						break
					}
					work = append(work, sts[1:]...)
					st = sts[0]
				}
			}
			return out, true
		}
		return e.one(p, nil), true
	case "*sync.Pool":
		if name == "Get" {
			e.used("sync.Pool.Get (always a fresh object from New, nil without New)")
			pool := e.load(p.st, e.asPtr(args[0])).(StructV)
			// field New is the last field of sync.Pool
			nf, ok := pool.f[len(pool.f)-1].(FuncV)
			if !ok || nf.fn == nil {
				return e.one(p, IfaceV{}), true
			}
			return e.callFn(p, nf.fn, nil, nf.env, depth, nil), true
		}
		if name == "Put" {
			e.used("sync.Pool.Put (contents of the recycled buffer become arbitrary: poison)")
			e.poison(p, args[1])
			return e.one(p, nil), true
		}
	case "*sync.Once":
		// executed from SSA (atomic + mutex models)
		return nil, false
	case "*sync.Cond":
		return e.one(p, e.zeroResult(p, rt)), true
	}
	return nil, false
}

// poison: the buffer given back to a pool may be reused by anybody: its contents become unconstrained
func (e *Engine) poison(p *Path, v Value) {
	iv, ok := v.(IfaceV)
	if !ok {
		return
	}
	for _, al := range iv.alts {
		pt, ok := al.val.(Ptr)
		if !ok || len(pt.alts) == 0 {
			continue
		}
		tgt := e.load(p.st, pt)
		if sl, ok := tgt.(SliceV); ok && sl.cap.IsConst() {
			et := al.typ.(*types.Pointer).Elem().Underlying().(*types.Slice).Elem()
			w, _ := intWidth(et)
			if w <= 0 {
				continue
			}
			for k := 0; k < int(sl.cap.val); k++ {
				e.nPoison++
				e.store(p.st, e.offsetPtr(sl.p, e.Const(64, uint64(k))), e.Var(fmt.Sprintf("poison%d", e.nPoison), w))
			}
		}
	}
}

func (e *Engine) modelAtomic(p *Path, fn *ssa.Function, args []Value, rt types.Type) ([]Result, bool) {
	name := fn.Name()
	if fn.Signature.Recv() != nil {
		return nil, false // typed atomics have bodies that call the functions below
	}
	e.used("sync/atomic (plain memory operations)")
	switch {
	case strings.HasPrefix(name, "Load"):
		pt := e.asPtr(args[0])
		if !e.derefCheck(p, pt, "atomic load") {
			return nil, true
		}
		return e.one(p, e.load(p.st, pt)), true
	case strings.HasPrefix(name, "Store"):
		pt := e.asPtr(args[0])
		if !e.derefCheck(p, pt, "atomic store") {
			return nil, true
		}
		e.store(p.st, pt, args[1])
		return e.one(p, nil), true
	case strings.HasPrefix(name, "Add"), strings.HasPrefix(name, "Xadd"):
		pt := e.asPtr(args[0])
		if !e.derefCheck(p, pt, "atomic add") {
			return nil, true
		}
		n := e.Bin(OpAdd, asTerm(e.load(p.st, pt)), asTerm(args[1]))
		e.store(p.st, pt, n)
		return e.one(p, n), true
	case strings.HasPrefix(name, "Swap"), strings.HasPrefix(name, "Xchg"):
		pt := e.asPtr(args[0])
		old := e.load(p.st, pt)
		e.store(p.st, pt, args[1])
		return e.one(p, old), true
	case strings.HasPrefix(name, "CompareAndSwap"), strings.HasPrefix(name, "Cas"):
		pt := e.asPtr(args[0])
		cur := e.load(p.st, pt)
		var eq *Term
		switch c := cur.(type) {
		case *Term:
			eq = e.Eq(c, asTerm(args[1]))
		case Ptr:
			eq = e.ptrEq(c, e.asPtr(args[1]))
		default:
			unsup("CAS on %T", cur)
		}
		e.store(p.st, pt, e.mergeValue(eq, args[2], cur))
		return e.one(p, eq), true
	}
	return nil, false
}

func (e *Engine) modelMath(p *Path, name string, args []Value) ([]Result, bool) {
	fl := func(i int) (float64, bool) {
		if i >= len(args) {
			return 0, false
		}
		f, ok := args[i].(FloatV)
		return float64(f), ok
	}
	a, okA := fl(0)
	b, okB := fl(1)
	switch name {
	case "Inf":
		return e.one(p, FloatV(math.Inf(int(sext64(asTerm(args[0]).val, 64))))), true
	case "NaN":
		return e.one(p, FloatV(math.NaN())), true
	case "Float64bits", "Float64frombits", "Float32bits", "Float32frombits":
		return nil, false
	}
	if !okA {
		if len(args) > 0 {
			if _, isU := args[0].(Undef); isU {
				return e.one(p, args[0]), true
			}
		}
		return nil, false
	}
	var r float64
	switch name {
	case "Log":
		r = math.Log(a)
	case "Log1p":
		r = math.Log1p(a)
	case "Log10":
		r = math.Log10(a)
	case "Log2":
		r = math.Log2(a)
	case "Exp":
		r = math.Exp(a)
	case "Expm1":
		r = math.Expm1(a)
	case "Floor":
		r = math.Floor(a)
	case "Ceil":
		r = math.Ceil(a)
	case "Round":
		r = math.Round(a)
	case "Trunc":
		r = math.Trunc(a)
	case "Sqrt":
		r = math.Sqrt(a)
	case "Abs":
		r = math.Abs(a)
	case "Pow", "Max", "Min":
		if !okB {
			if u, isU := args[1].(Undef); isU {
				return e.one(p, u), true // undefined (float-derived) operand: undefined result
			}
			return nil, false
		}
		switch name {
		case "Pow":
			r = math.Pow(a, b)
		case "Max":
			r = math.Max(a, b)
		default:
			r = math.Min(a, b)
		}
	case "IsNaN":
		return e.one(p, e.BoolC(math.IsNaN(a))), true
	case "IsInf":
		return e.one(p, e.BoolC(math.IsInf(a, int(sext64(asTerm(args[1]).val, 64))))), true
	default:
		return nil, false
	}
	return e.one(p, FloatV(r)), true
}

func (e *Engine) bytesOf(p *Path, v Value) (func(k int) *Term, int) {
	switch s := v.(type) {
	case SliceV:
		n := e.concLen(s.len, "byte search")
		return func(k int) *Term { return asTerm(e.elemAt(p.st, s.p, k)) }, n
	case StrV:
		n := e.concLen(s.len, "byte search")
		return func(k int) *Term { return asTerm(e.loadStrByte(p.st, s, e.Const(64, uint64(k)))) }, n
	}
	unsup("bytes of %T", v)
	return nil, 0
}

func (e *Engine) modelBytealg(p *Path, name string, args []Value) ([]Result, bool) {
	switch name {
	case "IndexByte", "IndexByteString":
		at, n := e.bytesOf(p, args[0])
		c := asTerm(args[1])
		res := e.Const(64, ^uint64(0))
		for k := n - 1; k >= 0; k-- {
			res = e.Ite(e.Eq(at(k), c), e.Const(64, uint64(k)), res)
		}
		return e.one(p, res), true
	case "LastIndexByte", "LastIndexByteString":
		at, n := e.bytesOf(p, args[0])
		c := asTerm(args[1])
		res := e.Const(64, ^uint64(0))
		for k := 0; k < n; k++ {
			res = e.Ite(e.Eq(at(k), c), e.Const(64, uint64(k)), res)
		}
		return e.one(p, res), true
	case "Count", "CountString":
		at, n := e.bytesOf(p, args[0])
		c := asTerm(args[1])
		res := e.Const(64, 0)
		for k := 0; k < n; k++ {
			res = e.Bin(OpAdd, res, e.Ite(e.Eq(at(k), c), e.Const(64, 1), e.Const(64, 0)))
		}
		return e.one(p, res), true
	case "Equal":
		a, na := e.bytesOf(p, args[0])
		b, nb := e.bytesOf(p, args[1])
		if na != nb {
			return e.one(p, e.False), true
		}
		eq := e.True
		for k := 0; k < na; k++ {
			eq = e.And(eq, e.Eq(a(k), b(k)))
		}
		return e.one(p, eq), true
	case "Compare", "CompareString":
		a, na := e.bytesOf(p, args[0])
		b, nb := e.bytesOf(p, args[1])
		n := na
		if nb < n {
			n = nb
		}
		var res *Term
		switch {
		case na < nb:
			res = e.Const(64, ^uint64(0))
		case na > nb:
			res = e.Const(64, 1)
		default:
			res = e.Const(64, 0)
		}
		for k := n - 1; k >= 0; k-- {
			res = e.Ite(e.Cmp(OpUlt, a(k), b(k)), e.Const(64, ^uint64(0)), e.Ite(e.Cmp(OpUlt, b(k), a(k)), e.Const(64, 1), res))
		}
		return e.one(p, res), true
	case "Index", "IndexString":
		a, na := e.bytesOf(p, args[0])
		b, nb := e.bytesOf(p, args[1])
		res := e.Const(64, ^uint64(0))
		for s := na - nb; s >= 0; s-- {
			m := e.True
			for k := 0; k < nb; k++ {
				m = e.And(m, e.Eq(a(s+k), b(k)))
			}
			res = e.Ite(m, e.Const(64, uint64(s)), res)
		}
		return e.one(p, res), true
	case "MakeNoZero":
		n := e.concLen(asTerm(args[0]), "MakeNoZero")
		return e.one(p, e.makeSlice(p.st, types.Typ[types.Uint8], n, n)), true
	case "Cutover":
		return e.one(p, e.Const(64, 64)), true
	}
	return nil, false
}

// ----- fmt: concrete formats only -----

func (e *Engine) errorValue(p *Path, msg string) Value {
	ep := e.prog.ImportedPackage("errors")
	if ep == nil {
		unsup("errors package not loaded")
	}
	t := ep.Type("errorString")
	if t == nil {
		unsup("errors.errorString not found")
	}
	id := e.newObj(p.st, []Value{StructV{[]Value{e.mkString(msg)}}})
	return e.mkIface(types.NewPointer(t.Type()), e.ptrTo(id, 0))
}

func (e *Engine) variadic(p *Path, v Value) []Value {
	s, ok := v.(SliceV)
	if !ok {
		return nil
	}
	n := e.concLen(s.len, "variadic")
	out := make([]Value, n)
	for k := range out {
		out[k] = e.elemAt(p.st, s.p, k)
	}
	return out
}

// render one operand as a string value (symbolic bytes allowed for strings/[]byte, ints must be concrete)
func (e *Engine) render(p *Path, verb byte, v Value) StrV {
	if iv, ok := v.(IfaceV); ok {
		if len(iv.alts) == 0 {
			return e.mkString("<nil>")
		}
		if len(iv.alts) > 1 {
			unsup("fmt of interface with several dynamic types")
		}
		al := iv.alts[0]
		switch x := al.val.(type) {
		case StrV:
			return x
		case *Term:
			w, sg := intWidth(al.typ)
			if w == 0 {
				if x.IsConst() {
					return e.mkString(strconv.FormatBool(x.val != 0))
				}
				unsup("fmt of symbolic bool")
			}
			if verb == 'c' {
				id := e.newObj(p.st, []Value{e.Extract(e.Zext(x, 64), 7, 0)})
				return StrV{e.ptrTo(id, 0), e.Const(64, 1)}
			}
			if !x.IsConst() {
				unsup("fmt of symbolic integer")
			}
			if sg {
				return e.mkString(strconv.FormatInt(sext64(x.val, w), 10))
			}
			return e.mkString(strconv.FormatUint(x.val, 10))
		case FloatV:
			return e.mkString(strconv.FormatFloat(float64(x), 'g', -1, 64))
		case SliceV:
			if b, ok := al.typ.Underlying().(*types.Slice).Elem().Underlying().(*types.Basic); ok && b.Kind() == types.Uint8 {
				n := e.concLen(x.len, "fmt of []byte")
				if n == 0 {
					return StrV{len: e.Const(64, 0)}
				}
				cells := make([]Value, n)
				for k := range cells {
					cells[k] = e.elemAt(p.st, x.p, k)
				}
				id := e.newObj(p.st, cells)
				return StrV{e.ptrTo(id, 0), x.len}
			}
		case Ptr:
			// error / Stringer payloads: opaque token
			return e.mkString("<ptr>")
		}
		return e.mkString("<" + al.typ.String() + ">")
	}
	unsup("fmt operand %T", v)
	return StrV{}
}

func (e *Engine) sprintf(p *Path, format string, ops []Value) StrV {
	var parts []StrV
	lit := func(s string) {
		if s != "" {
			parts = append(parts, e.mkString(s))
		}
	}
	k := 0
	i := 0
	start := 0
	for i < len(format) {
		if format[i] != '%' {
			i++
			continue
		}
		lit(format[start:i])
		i++
		if i >= len(format) {
			break
		}
		// flags / width / precision are only accepted when they cannot change the rendering we produce
		j := i
		for j < len(format) && strings.IndexByte("+-# 0123456789.", format[j]) >= 0 {
			j++
		}
		if j >= len(format) {
			break
		}
		verb := format[j]
		if verb == '%' {
			lit("%")
		} else {
			if j != i {
				unsup("fmt flags in %q", format)
			}
			if k >= len(ops) {
				lit("%!" + string(verb) + "(MISSING)")
			} else {
				switch verb {
				case 's', 'v', 'd', 'c', 'q':
					parts = append(parts, e.render(p, verb, ops[k]))
				default:
					unsup("fmt verb %%%c", verb)
				}
				k++
			}
		}
		i = j + 1
		start = i
	}
	lit(format[start:])
	res := StrV{len: e.Const(64, 0)}
	for _, s := range parts {
		res = e.strConcat(p, res, s).(StrV)
	}
	return res
}

func (e *Engine) modelFmt(p *Path, fn *ssa.Function, name string, args []Value, rt types.Type) ([]Result, bool) {
	switch name {
	case "Printf", "Println", "Print", "Fprintf", "Fprintln", "Fprint":
		if strings.HasPrefix(name, "F") {
			// writing through an io.Writer is part of the behaviour: only os.Stderr/os.Stdout style sinks are ignored
			if iv, ok := args[0].(IfaceV); ok && len(iv.alts) == 1 && iv.alts[0].typ.String() == "*os.File" {
				e.used("fmt.F* to *os.File (ignored)")
				return e.one(p, e.zeroResult(p, rt)), true
			}
			if name == "Fprintf" {
				f, ok := e.concStr(p.st, args[1])
				if !ok {
					unsup("fmt.Fprintf with symbolic format")
				}
				s := e.sprintf(p, f, e.variadic(p, args[2]))
				return e.writeString(p, args[0].(IfaceV), s, rt), true
			}
			unsup("fmt.%s to a non-file writer", name)
		}
		e.used("fmt.Print* (ignored)")
		return e.one(p, e.zeroResult(p, rt)), true
	case "Sprintf":
		f, ok := e.concStr(p.st, args[0])
		if !ok {
			unsup("fmt.Sprintf with symbolic format")
		}
		e.used("fmt.Sprintf (mini implementation: %s %v %d %c with concrete integers)")
		return e.one(p, e.sprintf(p, f, e.variadic(p, args[1]))), true
	case "Sprint":
		ops := e.variadic(p, args[0])
		res := StrV{len: e.Const(64, 0)}
		for _, o := range ops {
			res = e.strConcat(p, res, e.render(p, 'v', o)).(StrV)
		}
		return e.one(p, res), true
	case "Errorf":
		f, _ := e.concStr(p.st, args[0])
		e.used("fmt.Errorf (an opaque non-nil error carrying the format string)")
		return e.one(p, e.errorValue(p, f)), true
	}
	return nil, false
}

// writeString calls w.Write([]byte(s)) on the dynamic writer
func (e *Engine) writeString(p *Path, w IfaceV, s StrV, rt types.Type) []Result {
	n := e.concLen(s.len, "write")
	cells := make([]Value, n)
	for k := range cells {
		cells[k] = e.loadStrByte(p.st, s, e.Const(64, uint64(k)))
	}
	id := e.newObj(p.st, cells)
	buf := SliceV{e.ptrTo(id, 0), s.len, s.len}
	ioPkg := e.prog.ImportedPackage("io")
	wr := ioPkg.Type("Writer").Type().Underlying().(*types.Interface)
	var m *types.Func
	for i := 0; i < wr.NumMethods(); i++ {
		if wr.Method(i).Name() == "Write" {
			m = wr.Method(i)
		}
	}
	return e.invoke(p, m, w, []Value{buf}, 0, nil)
}

func (e *Engine) modelStrconv(p *Path, name string, args []Value, rt types.Type) ([]Result, bool) {
	switch name {
	case "Itoa":
		t := asTerm(args[0])
		if t.IsConst() {
			return e.one(p, e.mkString(strconv.Itoa(int(t.val)))), true
		}
		unsup("strconv.Itoa of symbolic int")
	case "Atoi":
		s, ok := e.concStr(p.st, args[0])
		if ok {
			v, err := strconv.Atoi(s)
			if err != nil {
				return e.one(p, TupleV{e.Const(64, 0), e.errorValue(p, "strconv.Atoi: parsing error")}), true
			}
			return e.one(p, TupleV{e.Const(64, uint64(v)), IfaceV{}}), true
		}
		return nil, false // symbolic digits: run the SSA body
	}
	return nil, false
}

// sort.Slice(x, less): bubble sort with the user's less (any order consistent with less is allowed for the
// unstable variant; SliceStable is reproduced exactly by adjacent swaps of strictly smaller elements).
func (e *Engine) modelSortSlice(p *Path, args []Value, depth int, stable bool) []Result {
	iv, ok := args[0].(IfaceV)
	if !ok || len(iv.alts) != 1 {
		unsup("sort.Slice on %T", args[0])
	}
	sl, ok := iv.alts[0].val.(SliceV)
	if !ok {
		unsup("sort.Slice on non-slice")
	}
	less := args[1].(FuncV)
	n := e.concLen(sl.len, "sort.Slice")
	e.used("sort.Slice (bubble sort driven by the caller's less)")
	paths := []*Path{p}
	for i := 0; i < n; i++ {
		for j := n - 1; j > i; j-- {
			var next []*Path
			for _, q := range paths {
				rs := e.callFn(q, less.fn, []Value{e.Const(64, uint64(j)), e.Const(64, uint64(j-1))}, less.env, depth, nil)
				rs = e.mergeResults(rs)
				for _, r := range rs {
					c := asTerm(r.val)
					a := e.load(r.st, e.offsetPtr(sl.p, e.Const(64, uint64(j))))
					b := e.load(r.st, e.offsetPtr(sl.p, e.Const(64, uint64(j-1))))
					e.store(r.st, e.offsetPtr(sl.p, e.Const(64, uint64(j))), e.mergeValue(c, b, a))
					e.store(r.st, e.offsetPtr(sl.p, e.Const(64, uint64(j-1))), e.mergeValue(c, a, b))
					next = append(next, &Path{st: r.st})
				}
			}
			paths = next
		}
	}
	var out []Result
	for _, q := range paths {
		out = append(out, Result{q.st, nil})
	}
	return out
}
