package main

import (
	"fmt"
	"go/token"
	"go/types"
	"sort"
	"strings"

	"golang.org/x/tools/go/ssa"
)

func (e *Engine) push(act *Activation, p *Path, from, to *ssa.BasicBlock) {
	p.pred = from
	act.pending[to.Index] = append(act.pending[to.Index], p)
}

// abnormal termination of the current path under cond (within p.st.G); kind 1 = panic, 2 = fatal
func (e *Engine) abort(p *Path, cond *Term, kind int, label string) {
	g := e.And(p.st.G, cond)
	if g.IsFalse() {
		return
	}
	if n := len(e.catch); n > 0 {
		st := e.fork(p.st)
		st.G = g
		e.catch[n-1].caught = append(e.catch[n-1].caught, caughtState{st, kind, label})
		return
	}
	if kind == 2 {
		e.fatals = append(e.fatals, Outcome{g, label, ""})
	} else {
		e.panics = append(e.panics, Outcome{g, label, ""})
	}
}

func (e *Engine) panicOutcome(p *Path, cond *Term, label string) { e.abort(p, cond, 1, label) }

// check records a potential runtime panic when ok is not provably true and continues under ok.
func (e *Engine) check(p *Path, ok *Term, label string) bool {
	if ok.IsTrue() {
		return true
	}
	if ok.IsFalse() {
		e.panicOutcome(p, e.True, label)
		p.st.G = e.False
		return false
	}
	if e.feasible(p.st.G, e.Not(ok)) {
		e.panicOutcome(p, e.Not(ok), label)
	}
	p.st.G = e.And(p.st.G, ok)
	return !p.st.G.IsFalse()
}

func asTerm(v Value) *Term {
	t, ok := v.(*Term)
	if !ok {
		if u, isU := v.(Undef); isU {
			unsup("use of undefined value (%s)", u.why)
		}
		unsup("expected scalar, got %T", v)
	}
	return t
}

func (e *Engine) asPtr(v Value) Ptr {
	p, ok := v.(Ptr)
	if !ok {
		if u, isU := v.(Undef); isU {
			unsup("use of undefined pointer (%s)", u.why)
		}
		unsup("expected pointer, got %T", v)
	}
	return p
}

func (e *Engine) offsetPtr(p Ptr, k *Term) Ptr {
	np := Ptr{make([]PtrAlt, len(p.alts))}
	for i, al := range p.alts {
		np.alts[i] = PtrAlt{al.g, al.obj, e.Bin(OpAdd, al.off, k), nil}
	}
	return np
}

func (e *Engine) elemAt(st *State, p Ptr, k int) Value {
	return e.load(st, e.offsetPtr(p, e.Const(64, uint64(k))))
}

// derefCheck: pointer must be non nil
func (e *Engine) derefCheck(p *Path, pt Ptr, what string) bool {
	if len(pt.alts) == 0 {
		e.panicOutcome(p, e.True, "nil pointer dereference ("+what+")")
		p.st.G = e.False
		return false
	}
	if len(pt.alts) == 1 && pt.alts[0].g.IsTrue() {
		return true
	}
	return e.check(p, e.notNil(pt), "nil pointer dereference ("+what+")")
}

func (e *Engine) execFrom(act *Activation, p *Path, blk *ssa.BasicBlock, start int) {
	fn := act.fn
	for i := start; i < len(blk.Instrs); i++ {
		in := blk.Instrs[i]
		if e.trace {
			fmt.Printf("  [%s b%d] %s\n", fn.Name(), blk.Index, in)
		}
		switch x := in.(type) {
		case *ssa.Jump:
			e.push(act, p, blk, blk.Succs[0])
			return
		case *ssa.If:
			var c *Term
			if u, isU := e.val(p, x.Cond).(Undef); isU && strings.Contains(u.why, "float") {
				// a condition computed from a value the engine does not model (floating point on symbolic
				// operands): unconstrained, both sides are explored
				e.nPoison++
				c = e.Var(fmt.Sprintf("havoc%d", e.nPoison), 0)
				e.used("branch on an unmodelled (floating-point) value: both sides explored (" + u.why + ")")
			} else {
				c = asTerm(e.val(p, x.Cond))
			}
			if c.IsConst() {
				if c.IsTrue() {
					e.push(act, p, blk, blk.Succs[0])
				} else {
					e.push(act, p, blk, blk.Succs[1])
				}
				return
			}
			var ft, ff bool
			if e.shortCircuit(blk) {
				// `a && b` / `a || b` over pure operands: both sides rejoin at once and are merged there; an
				// infeasible side is harmless (it carries its guard), so no solver call is spent on it
				ft, ff = true, true
			} else {
				if e.feasSites != nil {
					e.feasSites[fmt.Sprintf("%s b%d", fn.Name(), blk.Index)]++
				}
				ft = e.feasible(p.st.G, c)
				ff = e.feasible(p.st.G, e.Not(c))
			}
			switch {
			case ft && ff:
				q := e.clonePath(p)
				e.nForks++
				p.st.G = e.And(p.st.G, c)
				q.st.G = e.And(q.st.G, e.Not(c))
				e.push(act, p, blk, blk.Succs[0])
				e.push(act, q, blk, blk.Succs[1])
			case ft:
				e.push(act, p, blk, blk.Succs[0])
			case ff:
				e.push(act, p, blk, blk.Succs[1])
			}
			return
		case *ssa.Return:
			var v Value
			switch len(x.Results) {
			case 0:
			case 1:
				v = e.val(p, x.Results[0])
			default:
				tv := make(TupleV, len(x.Results))
				for k, r := range x.Results {
					tv[k] = e.val(p, r)
				}
				v = tv
			}
			act.results = append(act.results, Result{p.st, v})
			return
		case *ssa.Panic:
			e.panicOutcome(p, e.True, "explicit panic in "+fn.Name())
			return
		case *ssa.RunDefers:
			paths := e.runDefers(p, act)
			if len(paths) == 0 {
				return
			}
			for k := 1; k < len(paths); k++ {
				e.execFrom(act, paths[k], blk, i+1)
			}
			p = paths[0]
		case *ssa.MakeSlice:
			ln, cp := asTerm(e.val(p, x.Len)), asTerm(e.val(p, x.Cap))
			if ln.IsConst() && cp.IsConst() {
				if !e.execSimple(act, p, in) {
					return
				}
				continue
			}
			// symbolic size: split the path over the values it can take
			alts := e.splitOnValues(p, ln)
			var all []*Path
			for _, a := range alts {
				c2 := cp
				if cp == ln {
					c2 = e.Const(64, a.v)
				}
				if c2.IsConst() {
					a.p.regs[x.Len], a.p.regs[x.Cap] = e.Const(ln.w, a.v), c2
					all = append(all, a.p)
					continue
				}
				for _, b := range e.splitOnValues(a.p, c2) {
					b.p.regs[x.Len], b.p.regs[x.Cap] = e.Const(ln.w, a.v), e.Const(c2.w, b.v)
					all = append(all, b.p)
				}
			}
			for _, q := range all {
				// x.Len / x.Cap may be constants in the SSA: the overriding values are read through regs first
				e.makeSliceConcrete(act, q, x)
				e.execFrom(act, q, blk, i+1)
			}
			return
		case *ssa.Call, *ssa.Next, *ssa.UnOp:
			var rs []Result
			if u, ok := x.(*ssa.UnOp); ok {
				if u.Op != token.ARROW {
					if u.Op == token.MUL {
						if _, isChan := u.Type().Underlying().(*types.Chan); isChan {
							if pt, ok := e.val(p, u.X).(Ptr); ok && len(pt.alts) > 1 {
								// channels have no guarded alternatives: keep the pointer's targets on separate paths
								if !e.derefCheck(p, pt, "load") {
									return
								}
								for _, al := range pt.alts {
									if !e.feasible(p.st.G, al.g) {
										continue
									}
									q := e.clonePath(p)
									e.nForks++
									q.st.G = e.And(q.st.G, al.g)
									one := al
									one.g = e.True
									q.regs[u] = e.load(q.st, Ptr{[]PtrAlt{one}})
									e.execFrom(act, q, blk, i+1)
								}
								return
							}
						}
					}
					if !e.execSimple(act, p, in) {
						return
					}
					continue
				}
				c, ok := e.val(p, u.X).(ChanV)
				if !ok || c.obj == 0 {
					unsup("receive from nil/undefined channel")
				}
				rs = e.chanRecv(p, c, u.X.Type().Underlying().(*types.Chan).Elem(), act.depth, u.CommaOk)
			} else if c, ok := x.(*ssa.Call); ok {
				rs = e.doCall(p, c, act)
			} else {
				rs = e.next(p, x.(*ssa.Next))
			}
			if len(rs) == 0 {
				return
			}
			xv := x.(ssa.Value)
			for k := 1; k < len(rs); k++ {
				q := &Path{st: rs[k].st, regs: make(map[ssa.Value]Value, len(p.regs)+1), pred: p.pred, defers: p.defers}
				for a, b := range p.regs {
					q.regs[a] = b
				}
				q.regs[xv] = rs[k].val
				e.nForks++
				e.execFrom(act, q, blk, i+1)
			}
			p.st = rs[0].st
			p.regs[xv] = rs[0].val
		default:
			if !e.execSimple(act, p, in) {
				return
			}
		}
	}
}

// execSimple executes a non-control instruction; false = the path ended (panic)
func (e *Engine) execSimple(act *Activation, p *Path, in ssa.Instruction) bool {
	switch x := in.(type) {
	case *ssa.Alloc:
		p.regs[x] = e.alloc(p.st, x.Type().(*types.Pointer).Elem())
	case *ssa.BinOp:
		p.regs[x] = e.binop(p, x)
		if p.st.G.IsFalse() {
			return false
		}
	case *ssa.UnOp:
		switch x.Op {
		case token.MUL:
			pt := e.asPtr(e.val(p, x.X))
			if !e.derefCheck(p, pt, "load") {
				return false
			}
			v := e.load(p.st, pt)
			if hasArr(v) {
				v = e.copyVal(p.st, v)
			}
			p.regs[x] = v
		case token.SUB:
			switch f := e.val(p, x.X).(type) {
			case FloatV:
				p.regs[x] = -f
			case Undef:
				p.regs[x] = f
			default:
				p.regs[x] = e.Un(OpNeg, asTerm(f))
			}
		case token.XOR:
			p.regs[x] = e.Un(OpBvNot, asTerm(e.val(p, x.X)))
		case token.NOT:
			p.regs[x] = e.Not(asTerm(e.val(p, x.X)))
		default:
			unsup("unop %s", x.Op)
		}
	case *ssa.Store:
		pt := e.asPtr(e.val(p, x.Addr))
		if !e.derefCheck(p, pt, "store") {
			return false
		}
		e.store(p.st, pt, e.val(p, x.Val))
	case *ssa.FieldAddr:
		pt := e.asPtr(e.val(p, x.X))
		if !e.derefCheck(p, pt, "field address") {
			return false
		}
		np := Ptr{}
		for _, al := range pt.alts {
			np.alts = append(np.alts, PtrAlt{al.g, al.obj, al.off, append(append([]int(nil), al.path...), x.Field)})
		}
		p.regs[x] = np
	case *ssa.Field:
		sv, ok := e.val(p, x.X).(StructV)
		if !ok {
			unsup("field of %T", e.val(p, x.X))
		}
		p.regs[x] = sv.f[x.Field]
	case *ssa.IndexAddr:
		if !e.indexAddr(p, x) {
			return false
		}
	case *ssa.Index:
		idx := e.idx64(p, x.Index)
		switch xv := e.val(p, x.X).(type) {
		case ArrRef:
			n := len(e.obj(p.st, xv.obj).cells)
			if !e.check(p, e.Cmp(OpUlt, idx, e.Const(64, uint64(n))), "index out of range") {
				return false
			}
			p.regs[x] = e.loadAlt(p.st, PtrAlt{e.True, xv.obj, idx, nil})
		case StrV:
			if !e.check(p, e.Cmp(OpUlt, idx, xv.len), "string index out of range") {
				return false
			}
			p.regs[x] = e.load(p.st, e.offsetPtr(xv.p, idx))
		default:
			unsup("index on %T", xv)
		}
	case *ssa.Lookup:
		switch xv := e.val(p, x.X).(type) {
		case StrV:
			idx := e.idx64(p, x.Index)
			if !e.check(p, e.Cmp(OpUlt, idx, xv.len), "string index out of range") {
				return false
			}
			p.regs[x] = e.loadStrByte(p.st, xv, idx)
		case MapV:
			zero := e.zero(p.st, x.X.Type().Underlying().(*types.Map).Elem())
			v, found := e.mapLookup(p.st, xv, e.val(p, x.Index), zero)
			if x.CommaOk {
				p.regs[x] = TupleV{v, found}
			} else {
				p.regs[x] = v
			}
		default:
			unsup("lookup on %T", xv)
		}
	case *ssa.Slice:
		if !e.sliceOp(p, x) {
			return false
		}
	case *ssa.MakeSlice:
		ln := asTerm(e.val(p, x.Len))
		cp := asTerm(e.val(p, x.Cap))
		if !cp.IsConst() || !ln.IsConst() {
			unsup("symbolic make size in %s", act.fn.Name())
		}
		if int64(ln.val) < 0 || ln.val > cp.val {
			e.panicOutcome(p, e.True, "makeslice: len out of range")
			return false
		}
		if cp.val > 1<<24 {
			unsup("huge make")
		}
		et := x.Type().Underlying().(*types.Slice).Elem()
		p.regs[x] = e.makeSlice(p.st, et, int(ln.val), int(cp.val))
	case *ssa.Convert:
		p.regs[x] = e.convert(p, x)
	case *ssa.ChangeType:
		p.regs[x] = e.val(p, x.X)
	case *ssa.MakeInterface:
		p.regs[x] = e.mkIface(x.X.Type(), e.val(p, x.X))
	case *ssa.ChangeInterface:
		p.regs[x] = e.val(p, x.X)
	case *ssa.MakeClosure:
		env := make([]Value, len(x.Bindings))
		for k, b := range x.Bindings {
			env[k] = e.val(p, b)
		}
		p.regs[x] = FuncV{x.Fn.(*ssa.Function), env}
	case *ssa.Extract:
		tv, ok := e.val(p, x.Tuple).(TupleV)
		if !ok {
			unsup("extract from %T", e.val(p, x.Tuple))
		}
		p.regs[x] = tv[x.Index]
	case *ssa.Phi:
		// handled at block entry
	case *ssa.DebugRef:
	case *ssa.MakeMap:
		id := e.newObj(p.st, nil)
		e.obj(p.st, id).kind = kindMap
		p.regs[x] = e.mkMap(id)
	case *ssa.MapUpdate:
		m, ok := e.val(p, x.Map).(MapV)
		if !ok {
			unsup("map update on %T", e.val(p, x.Map))
		}
		if !e.check(p, e.mapNonNil(m), "assignment to entry in nil map") {
			return false
		}
		e.mapUpdate(p.st, m, e.val(p, x.Key), e.val(p, x.Value))
	case *ssa.MakeChan:
		id := e.newObj(p.st, []Value{e.False})
		e.obj(p.st, id).kind = kindChan
		p.regs[x] = ChanV{id}
	case *ssa.Send:
		c, ok := e.val(p, x.Chan).(ChanV)
		if !ok || c.obj == 0 {
			unsup("send on nil/undefined channel (%T %v)", e.val(p, x.Chan), e.val(p, x.Chan))
		}
		o := e.wobj(p.st, c.obj)
		if cl := o.cells[0].(*Term); !cl.IsFalse() {
			if !e.check(p, e.Not(cl), "send on closed channel") {
				return false
			}
			o = e.wobj(p.st, c.obj)
		}
		o.cells = append(o.cells, e.val(p, x.X))
	case *ssa.Go:
		cc := x.Common()
		args := make([]Value, len(cc.Args))
		for k, a := range cc.Args {
			args[k] = e.val(p, a)
		}
		var fv FuncV
		if cc.IsInvoke() {
			unsup("go on interface method")
		}
		if sc := cc.StaticCallee(); sc != nil {
			fv = FuncV{fn: sc}
			if mc, ok := cc.Value.(*ssa.MakeClosure); ok {
				fv = e.val(p, mc).(FuncV)
			}
		} else {
			var ok bool
			fv, ok = e.val(p, cc.Value).(FuncV)
			if !ok || fv.fn == nil {
				unsup("go on dynamic value")
			}
		}
		e.taskCtr++
		p.st.tasks = append(append([]Task(nil), p.st.tasks...), Task{fv.fn, args, fv.env, e.taskCtr})
	case *ssa.TypeAssert:
		return e.typeAssert(p, x)
	case *ssa.Defer:
		e.pushDefer(p, x)
	case *ssa.Range:
		switch xv := e.val(p, x.X).(type) {
		case MapV:
			// snapshot of the entries at range time (insertion order)
			var cells []Value
			cells = append(cells, e.Const(64, 0))
			for _, al := range xv.alts {
				for _, c := range e.obj(p.st, al.obj).cells {
					en := c.(StructV)
					cells = append(cells, StructV{[]Value{en.f[0], en.f[1], e.And(al.g, en.f[2].(*Term))}})
				}
			}
			id := e.newObj(p.st, cells)
			e.obj(p.st, id).kind = kindIter
			p.regs[x] = IterV{obj: id, m: xv}
		case StrV:
			id := e.newObj(p.st, []Value{e.Const(64, 0)})
			e.obj(p.st, id).kind = kindIter
			p.regs[x] = IterV{obj: id, s: xv, str: true}
		default:
			unsup("range over %T", xv)
		}
	case *ssa.Select:
		unsup("select statement in %s", act.fn.Name())
	default:
		unsup("instruction %T in %s", in, act.fn.Name())
	}
	return true
}

func (e *Engine) makeSlice(st *State, et types.Type, ln, cp int) SliceV {
	cells := make([]Value, cp)
	if cp > 0 {
		z := e.zero(st, et)
		fresh := hasArr(z)
		for k := range cells {
			if fresh && k > 0 {
				cells[k] = e.zero(st, et)
			} else {
				cells[k] = z
			}
		}
	}
	id := e.newObj(st, cells)
	return SliceV{e.ptrTo(id, 0), e.Const(64, uint64(ln)), e.Const(64, uint64(cp))}
}

func (e *Engine) idx64(p *Path, v ssa.Value) *Term {
	idx := asTerm(e.val(p, v))
	if idx.w != 64 {
		_, sg := intWidth(v.Type())
		if sg {
			idx = e.Sext(idx, 64)
		} else {
			idx = e.Zext(idx, 64)
		}
	}
	return idx
}

func (e *Engine) loadStrByte(st *State, s StrV, idx *Term) Value {
	if len(s.p.alts) == 1 && idx.IsConst() {
		al := s.p.alts[0]
		return e.loadAlt(st, PtrAlt{e.True, al.obj, e.Bin(OpAdd, al.off, idx), nil})
	}
	if len(s.p.alts) == 1 && s.len.IsConst() && s.p.alts[0].off.IsConst() {
		al := s.p.alts[0]
		lo := int(al.off.val)
		return e.loadAltRange(st, PtrAlt{e.True, al.obj, e.Bin(OpAdd, al.off, idx), nil}, lo, lo+int(s.len.val))
	}
	return e.load(st, e.offsetPtr(s.p, idx))
}

func (e *Engine) indexAddr(p *Path, x *ssa.IndexAddr) bool {
	idx := e.idx64(p, x.Index)
	switch xv := e.val(p, x.X).(type) {
	case SliceV:
		if !e.check(p, e.Cmp(OpUlt, idx, xv.len), "index out of range") {
			return false
		}
		p.regs[x] = e.offsetPtr(xv.p, idx)
	case Ptr: // pointer to array
		if !e.derefCheck(p, xv, "array index") {
			return false
		}
		tg := e.arrTargets(p.st, xv)
		if len(tg) == 0 {
			unsup("indexaddr through pointer to non-array")
		}
		n := len(e.obj(p.st, tg[0].obj).cells)
		if !e.check(p, e.Cmp(OpUlt, idx, e.Const(64, uint64(n))), "index out of range") {
			return false
		}
		np := Ptr{}
		for _, t := range tg {
			g := t.g
			if len(tg) == 1 {
				g = e.True
			}
			np.alts = append(np.alts, PtrAlt{g, t.obj, idx, nil})
		}
		p.regs[x] = np
	default:
		unsup("indexaddr on %T", xv)
	}
	return true
}

func (e *Engine) sliceOp(p *Path, x *ssa.Slice) bool {
	get := func(v ssa.Value, def *Term) *Term {
		if v == nil {
			return def
		}
		return e.idx64(p, v)
	}
	switch xv := e.val(p, x.X).(type) {
	case SliceV:
		lo := get(x.Low, e.Const(64, 0))
		hi := get(x.High, xv.len)
		mx := get(x.Max, xv.cap)
		ok := e.And(e.Cmp(OpUle, lo, hi), e.And(e.Cmp(OpUle, hi, mx), e.Cmp(OpUle, mx, xv.cap)))
		if !e.check(p, ok, "slice bounds out of range") {
			return false
		}
		p.regs[x] = SliceV{e.offsetPtr(xv.p, lo), e.Bin(OpSub, hi, lo), e.Bin(OpSub, mx, lo)}
	case StrV:
		lo := get(x.Low, e.Const(64, 0))
		hi := get(x.High, xv.len)
		if !e.check(p, e.And(e.Cmp(OpUle, lo, hi), e.Cmp(OpUle, hi, xv.len)), "string slice bounds out of range") {
			return false
		}
		p.regs[x] = StrV{e.offsetPtr(xv.p, lo), e.Bin(OpSub, hi, lo)}
	case Ptr:
		if !e.derefCheck(p, xv, "slice of array") {
			return false
		}
		ar, ok := e.load(p.st, xv).(ArrRef)
		if !ok {
			// (*[N]T)(unsafe.Pointer(&buf[k]))[lo:hi] - a view on the cells of a plain object that starts at
			// the pointed cell: allowed for a single concrete target, bounded by the object (not by N)
			if len(xv.alts) == 1 && xv.alts[0].off.IsConst() && len(xv.alts[0].path) == 0 {
				al := xv.alts[0]
				room := len(e.obj(p.st, al.obj).cells) - int(al.off.val)
				n := e.Const(64, uint64(room))
				lo := get(x.Low, e.Const(64, 0))
				hi := get(x.High, n)
				mx := get(x.Max, n)
				if !e.check(p, e.And(e.Cmp(OpUle, lo, hi), e.And(e.Cmp(OpUle, hi, mx), e.Cmp(OpUle, mx, n))), "slice of an unsafe array view beyond the object") {
					return false
				}
				p.regs[x] = SliceV{e.offsetPtr(xv, lo), e.Bin(OpSub, hi, lo), e.Bin(OpSub, mx, lo)}
				return true
			}
			unsup("slice of pointer to non-array")
		}
		n := e.Const(64, uint64(len(e.obj(p.st, ar.obj).cells)))
		lo := get(x.Low, e.Const(64, 0))
		hi := get(x.High, n)
		mx := get(x.Max, n)
		if !e.check(p, e.And(e.Cmp(OpUle, lo, hi), e.And(e.Cmp(OpUle, hi, mx), e.Cmp(OpUle, mx, n))), "slice bounds out of range") {
			return false
		}
		p.regs[x] = SliceV{Ptr{[]PtrAlt{{e.True, ar.obj, lo, nil}}}, e.Bin(OpSub, hi, lo), e.Bin(OpSub, mx, lo)}
	default:
		unsup("slice of %T", xv)
	}
	return true
}

func (e *Engine) typeAssert(p *Path, x *ssa.TypeAssert) bool {
	iv, ok := e.val(p, x.X).(IfaceV)
	if !ok {
		unsup("type assertion on %T", e.val(p, x.X))
	}
	_, toIface := x.AssertedType.Underlying().(*types.Interface)
	// condition under which the assertion succeeds and the resulting value
	okc := e.False
	var res Value
	if toIface {
		it := x.AssertedType.Underlying().(*types.Interface)
		var alts []IfaceAlt
		for _, al := range iv.alts {
			if al.typ == nil {
				continue
			}
			if types.Implements(al.typ, it) {
				okc = e.Or(okc, al.g)
				alts = append(alts, al)
			}
		}
		res = IfaceV{alts}
	} else {
		for _, al := range iv.alts {
			if al.typ != nil && types.Identical(al.typ, x.AssertedType) {
				okc = e.Or(okc, al.g)
				if res == nil {
					res = al.val
				} else {
					res = e.mergeValue(al.g, al.val, res)
				}
			}
		}
		if res == nil {
			res = e.zero(p.st, x.AssertedType)
		}
	}
	if x.CommaOk {
		if !okc.IsTrue() && !toIface {
			res = e.mergeValue(okc, res, e.zero(p.st, x.AssertedType))
		}
		p.regs[x] = TupleV{res, okc}
		return true
	}
	if !e.check(p, okc, "type assertion failed") {
		return false
	}
	p.regs[x] = res
	return true
}

func (e *Engine) convert(p *Path, x *ssa.Convert) Value {
	v := e.val(p, x.X)
	from, to := x.X.Type(), x.Type()
	fw, fs := intWidth(from)
	tw, _ := intWidth(to)
	if u, ok := v.(Undef); ok {
		if tw > 0 && isFloat(from) && strings.Contains(u.why, "float") {
			// an integer made from a floating-point value the engine does not model: any value of the type
			// (over-approximation: sound for unsat verdicts, a model that relies on it does not replay)
			e.nPoison++
			e.used("integer converted from an unmodelled floating-point value: unconstrained (" + u.why + ")")
			return e.Var(fmt.Sprintf("fhavoc%d", e.nPoison), tw)
		}
		return u
	}
	switch {
	case fw > 0 && tw > 0:
		t := asTerm(v)
		if tw <= fw {
			return e.Extract(t, tw-1, 0)
		}
		if fs {
			return e.Sext(t, tw)
		}
		return e.Zext(t, tw)
	case fw > 0 && isFloat(to):
		t := asTerm(v)
		if !t.IsConst() {
			return Undef{"float of symbolic int"}
		}
		if fs {
			return FloatV(float64(sext64(t.val, fw)))
		}
		return FloatV(float64(t.val))
	case isFloat(from) && tw > 0:
		f, ok := v.(FloatV)
		if !ok {
			return Undef{"int of symbolic float"}
		}
		if _, sg := intWidth(to); sg {
			return e.Const(tw, uint64(int64(float64(f))))
		}
		return e.Const(tw, uint64(float64(f)))
	case isFloat(from) && isFloat(to):
		if b := to.Underlying().(*types.Basic); b.Kind() == types.Float32 {
			if f, ok := v.(FloatV); ok {
				return FloatV(float64(float32(f)))
			}
		}
		return v
	}
	// string <-> []byte
	if sv, ok := v.(StrV); ok {
		if sl, ok := to.Underlying().(*types.Slice); ok {
			if b, isB := sl.Elem().Underlying().(*types.Basic); isB && b.Kind() == types.Int32 {
				// []rune(string): ASCII only
				n := e.concLen(sv.len, "[]rune(string)")
				cells := make([]Value, n)
				for k := 0; k < n; k++ {
					b := asTerm(e.loadStrByte(p.st, sv, e.Const(64, uint64(k))))
					e.asciiOnly(p, b)
					cells[k] = e.Zext(b, 32)
				}
				id := e.newObj(p.st, cells)
				return SliceV{e.ptrTo(id, 0), sv.len, sv.len}
			}
			n := e.concLen(sv.len, "[]byte(string)")
			cells := make([]Value, n)
			for k := 0; k < n; k++ {
				cells[k] = e.loadStrByte(p.st, sv, e.Const(64, uint64(k)))
			}
			id := e.newObj(p.st, cells)
			return SliceV{e.ptrTo(id, 0), sv.len, sv.len}
		}
		if isString(to) {
			return sv
		}
	}
	if sl, ok := v.(SliceV); ok && isString(to) {
		n := 0
		if sl.len.IsConst() {
			n = int(sl.len.val)
		} else {
			// symbolic length: the bytes are copied up to the largest length possible on this path; the string
			// keeps the symbolic length (bytes beyond it are never looked at)
			vals, complete := e.sol.Enumerate(e.TB, p.st.G, sl.len, 64, e.feasMs)
			if !complete {
				unsup("string([]byte) with a symbolic length of too many (or undecided) values")
			}
			for _, v := range vals {
				if int64(v) > int64(n) {
					n = int(v)
				}
			}
		}
		if n == 0 {
			return StrV{len: e.Const(64, 0)}
		}
		isRune := false
		if b, isB := from.Underlying().(*types.Slice).Elem().Underlying().(*types.Basic); isB && b.Kind() == types.Int32 {
			isRune = true
		}
		cells := make([]Value, n)
		for k := 0; k < n; k++ {
			c := e.elemAt(p.st, sl.p, k)
			if isRune {
				t := asTerm(c)
				e.asciiOnly(p, t)
				c = e.Extract(t, 7, 0)
			}
			cells[k] = c
		}
		id := e.newObj(p.st, cells)
		return StrV{e.ptrTo(id, 0), sl.len}
	}
	if fw > 0 && isString(to) { // string(rune)
		t := asTerm(v)
		e.asciiOnly(p, t)
		id := e.newObj(p.st, []Value{e.Extract(e.Zext(t, 64), 7, 0)})
		return StrV{e.ptrTo(id, 0), e.Const(64, 1)}
	}
	if _, ok := v.(Ptr); ok { // unsafe.Pointer conversions
		return v
	}
	unsup("convert %s -> %s", from, to)
	return nil
}

// asciiOnly: rune/byte conversions are only modelled for ASCII
func (e *Engine) asciiOnly(p *Path, t *Term) {
	bad := e.Cmp(OpUle, e.Const(t.w, 0x80), t)
	if bad.IsFalse() {
		return
	}
	if e.feasible(p.st.G, bad) {
		unsup("non-ASCII rune/byte conversion with symbolic data")
	}
}

func (e *Engine) concLen(t *Term, what string) int {
	if !t.IsConst() {
		unsup("%s with symbolic length", what)
	}
	return int(t.val)
}

func (e *Engine) ptrEq(a, b Ptr) *Term {
	an, bn := e.Not(e.notNil(a)), e.Not(e.notNil(b))
	eq := e.And(an, bn)
	for _, x := range a.alts {
		for _, y := range b.alts {
			if x.obj == y.obj && samePath(x.path, y.path) {
				eq = e.Or(eq, e.And(e.And(x.g, y.g), e.Eq(x.off, y.off)))
			}
		}
	}
	return eq
}

// lenCandidates: the concrete values a (possibly merged) length can take, with their conditions
func (e *Engine) lenCandidates(t *Term, what string) ([]uint64, []*Term) {
	if t.IsConst() {
		return []uint64{t.val}, []*Term{e.True}
	}
	seen := map[uint64]bool{}
	budget := 4096
	if !iteLeaves(t, seen, &budget) || len(seen) > 32 {
		unsup("%s with symbolic length", what)
	}
	var vals []uint64
	for v := range seen {
		vals = append(vals, v)
	}
	sort.Slice(vals, func(a, b int) bool { return vals[a] < vals[b] })
	conds := make([]*Term, len(vals))
	for i, v := range vals {
		conds[i] = e.Eq(t, e.Const(t.w, v))
	}
	return vals, conds
}

func (e *Engine) strEq(p *Path, a, b StrV) *Term {
	if a.len == b.len && e.identical(a.p, b.p) {
		return e.True
	}
	if !a.len.IsConst() || !b.len.IsConst() {
		// merged strings: equal iff they have the same length n and agree on their n bytes, for some candidate n
		va, ca := e.lenCandidates(a.len, "comparison of strings")
		vb, cb := e.lenCandidates(b.len, "comparison of strings")
		eq := e.False
		for i, n := range va {
			for j, m := range vb {
				if n != m {
					continue
				}
				c := e.And(ca[i], cb[j])
				if c.IsFalse() {
					continue
				}
				same := e.True
				for k := 0; k < int(n); k++ {
					kk := e.Const(64, uint64(k))
					x, okx := e.loadStrByte(p.st, a, kk).(*Term)
					y, oky := e.loadStrByte(p.st, b, kk).(*Term)
					if !okx || !oky {
						same = e.False // an alternative too short for this length: infeasible under c
						break
					}
					same = e.And(same, e.Eq(x, y))
				}
				eq = e.Or(eq, e.And(c, same))
			}
		}
		return eq
	}
	if a.len.val != b.len.val {
		return e.False
	}
	eq := e.True
	for k := 0; k < int(a.len.val); k++ {
		kk := e.Const(64, uint64(k))
		eq = e.And(eq, e.Eq(asTerm(e.loadStrByte(p.st, a, kk)), asTerm(e.loadStrByte(p.st, b, kk))))
		if eq.IsFalse() {
			break
		}
	}
	return eq
}

func (e *Engine) strLess(p *Path, a, b StrV) *Term {
	na, nb := e.concLen(a.len, "string <"), e.concLen(b.len, "string <")
	// lexicographic: build from the end
	n := na
	if nb < n {
		n = nb
	}
	res := e.BoolC(na < nb)
	for k := n - 1; k >= 0; k-- {
		kk := e.Const(64, uint64(k))
		x, y := asTerm(e.loadStrByte(p.st, a, kk)), asTerm(e.loadStrByte(p.st, b, kk))
		res = e.Ite(e.Cmp(OpUlt, x, y), e.True, e.Ite(e.Cmp(OpUlt, y, x), e.False, res))
	}
	return res
}

func (e *Engine) strConcat(p *Path, a, b StrV) Value {
	if !a.len.IsConst() || !b.len.IsConst() {
		va, ca := e.lenCandidates(a.len, "string +")
		vb, cb := e.lenCandidates(b.len, "string +")
		var res Value
		for i, n := range va {
			for j, m := range vb {
				c := e.And(ca[i], cb[j])
				if c.IsFalse() {
					continue
				}
				one := e.strConcat(p, StrV{a.p, e.Const(64, n)}, StrV{b.p, e.Const(64, m)})
				if res == nil {
					res = one
				} else {
					res = e.mergeValue(c, one, res)
				}
			}
		}
		if res == nil {
			return StrV{len: e.Const(64, 0)}
		}
		return res
	}
	na, nb := int(a.len.val), int(b.len.val)
	if na == 0 {
		return b
	}
	if nb == 0 {
		return a
	}
	cells := make([]Value, na+nb)
	for k := 0; k < na; k++ {
		cells[k] = e.loadStrByte(p.st, a, e.Const(64, uint64(k)))
	}
	for k := 0; k < nb; k++ {
		cells[na+k] = e.loadStrByte(p.st, b, e.Const(64, uint64(k)))
	}
	id := e.newObj(p.st, cells)
	return StrV{e.ptrTo(id, 0), e.Const(64, uint64(na+nb))}
}

func (e *Engine) valueEq(p *Path, a, b Value, t types.Type) *Term {
	switch x := a.(type) {
	case *Term:
		return e.Eq(x, asTerm(b))
	case StrV:
		return e.strEq(p, x, b.(StrV))
	case Ptr:
		return e.ptrEq(x, e.asPtr(b))
	case FloatV:
		y, ok := b.(FloatV)
		if !ok {
			unsup("float comparison with undefined")
		}
		return e.BoolC(x == y)
	case StructV:
		y := b.(StructV)
		eq := e.True
		st := t.Underlying().(*types.Struct)
		for i := range x.f {
			eq = e.And(eq, e.valueEq(p, x.f[i], y.f[i], st.Field(i).Type()))
		}
		return eq
	case ArrRef:
		y := b.(ArrRef)
		xo, yo := e.obj(p.st, x.obj), e.obj(p.st, y.obj)
		eq := e.True
		et := t.Underlying().(*types.Array).Elem()
		for i := range xo.cells {
			eq = e.And(eq, e.valueEq(p, xo.cells[i], yo.cells[i], et))
		}
		return eq
	case IfaceV:
		y := b.(IfaceV)
		eq := e.And(e.Not(e.ifaceNotNil(x)), e.Not(e.ifaceNotNil(y)))
		for _, xa := range x.alts {
			for _, ya := range y.alts {
				if xa.typ == nil || ya.typ == nil || !types.Identical(xa.typ, ya.typ) {
					continue
				}
				if _, isSl := xa.typ.Underlying().(*types.Slice); isSl {
					unsup("comparing uncomparable interface payload")
				}
				eq = e.Or(eq, e.And(e.And(xa.g, ya.g), e.valueEq(p, xa.val, ya.val, xa.typ)))
			}
		}
		return eq
	case FuncV:
		y := b.(FuncV)
		if x.fn != nil && y.fn != nil {
			unsup("comparison of two non-nil funcs")
		}
		return e.BoolC(x.fn == y.fn)
	case ChanV:
		return e.BoolC(x == b.(ChanV))
	case MapV:
		y := b.(MapV)
		if len(x.alts) != 0 && len(y.alts) != 0 {
			unsup("comparison of two non-nil maps")
		}
		// m == nil
		return e.And(e.Not(e.mapNonNil(x)), e.Not(e.mapNonNil(y)))
	case SliceV: // slice == nil
		y, ok := b.(SliceV)
		if ok && len(y.p.alts) == 0 {
			return e.Not(e.notNil(x.p))
		}
		if ok && len(x.p.alts) == 0 {
			return e.Not(e.notNil(y.p))
		}
	}
	unsup("comparison of %T", a)
	return nil
}

func (e *Engine) binop(p *Path, x *ssa.BinOp) Value {
	a, b := e.val(p, x.X), e.val(p, x.Y)
	if _, ok := a.(Undef); ok {
		return a
	}
	if _, ok := b.(Undef); ok {
		return b
	}
	// floats: concrete only
	if fa, ok := a.(FloatV); ok {
		fb, ok2 := b.(FloatV)
		if !ok2 {
			return Undef{"float op on undefined"}
		}
		switch x.Op {
		case token.ADD:
			return fa + fb
		case token.SUB:
			return fa - fb
		case token.MUL:
			return fa * fb
		case token.QUO:
			return fa / fb
		case token.LSS:
			return e.BoolC(fa < fb)
		case token.LEQ:
			return e.BoolC(fa <= fb)
		case token.GTR:
			return e.BoolC(fa > fb)
		case token.GEQ:
			return e.BoolC(fa >= fb)
		case token.EQL:
			return e.BoolC(fa == fb)
		case token.NEQ:
			return e.BoolC(fa != fb)
		}
		unsup("float op %s", x.Op)
	}
	if sa, ok := a.(StrV); ok {
		sb := b.(StrV)
		switch x.Op {
		case token.ADD:
			return e.strConcat(p, sa, sb)
		case token.EQL:
			return e.strEq(p, sa, sb)
		case token.NEQ:
			return e.Not(e.strEq(p, sa, sb))
		case token.LSS:
			return e.strLess(p, sa, sb)
		case token.GTR:
			return e.strLess(p, sb, sa)
		case token.LEQ:
			return e.Not(e.strLess(p, sb, sa))
		case token.GEQ:
			return e.Not(e.strLess(p, sa, sb))
		}
		unsup("string op %s", x.Op)
	}
	if _, isT := a.(*Term); !isT {
		switch x.Op {
		case token.EQL:
			return e.valueEq(p, a, b, x.X.Type())
		case token.NEQ:
			return e.Not(e.valueEq(p, a, b, x.X.Type()))
		}
		unsup("binop %s on %T", x.Op, a)
	}
	ta, tb := asTerm(a), asTerm(b)
	w, sg := intWidth(x.X.Type())
	switch x.Op {
	case token.ADD:
		return e.Bin(OpAdd, ta, tb)
	case token.SUB:
		return e.Bin(OpSub, ta, tb)
	case token.MUL:
		return e.Bin(OpMul, ta, tb)
	case token.QUO, token.REM:
		if !e.check(p, e.Not(e.Eq(tb, e.Const(w, 0))), "integer divide by zero") {
			return e.Const(w, 0)
		}
		op := OpUdiv
		switch {
		case x.Op == token.QUO && sg:
			op = OpSdiv
		case x.Op == token.REM && sg:
			op = OpSrem
		case x.Op == token.REM:
			op = OpUrem
		}
		return e.Bin(op, ta, tb)
	case token.AND:
		if w == 0 {
			return e.And(ta, tb)
		}
		return e.Bin(OpBvAnd, ta, tb)
	case token.OR:
		if w == 0 {
			return e.Or(ta, tb)
		}
		return e.Bin(OpBvOr, ta, tb)
	case token.XOR:
		if w == 0 {
			return e.Not(e.Eq(ta, tb))
		}
		return e.Bin(OpBvXor, ta, tb)
	case token.AND_NOT:
		return e.Bin(OpBvAnd, ta, e.Un(OpBvNot, tb))
	case token.SHL, token.SHR:
		// Go: shift count is unsigned (or a non-negative signed value, else panic); counts >= width give 0 / sign fill
		if _, ysg := intWidth(x.Y.Type()); ysg {
			neg := e.Cmp(OpSlt, tb, e.Const(tb.w, 0))
			if !e.check(p, e.Not(neg), "negative shift amount") {
				return e.Const(w, 0)
			}
		}
		if tb.w < ta.w {
			tb = e.Zext(tb, ta.w)
		} else if tb.w > ta.w {
			big := e.Cmp(OpUle, e.Const(tb.w, uint64(ta.w)), tb)
			tb = e.Ite(big, e.Const(ta.w, uint64(ta.w)), e.Extract(tb, ta.w-1, 0))
		}
		if x.Op == token.SHL {
			return e.Bin(OpShl, ta, tb)
		}
		if sg {
			return e.Bin(OpAshr, ta, tb)
		}
		return e.Bin(OpLshr, ta, tb)
	case token.EQL:
		return e.Eq(ta, tb)
	case token.NEQ:
		return e.Not(e.Eq(ta, tb))
	case token.LSS:
		if sg {
			return e.Cmp(OpSlt, ta, tb)
		}
		return e.Cmp(OpUlt, ta, tb)
	case token.LEQ:
		if sg {
			return e.Cmp(OpSle, ta, tb)
		}
		return e.Cmp(OpUle, ta, tb)
	case token.GTR:
		if sg {
			return e.Cmp(OpSlt, tb, ta)
		}
		return e.Cmp(OpUlt, tb, ta)
	case token.GEQ:
		if sg {
			return e.Cmp(OpSle, tb, ta)
		}
		return e.Cmp(OpUle, tb, ta)
	}
	unsup("binop %s", x.Op)
	return nil
}

// shortCircuit: blk ends in an If that opens an acyclic region of side-effect-free blocks (the SSA shape of
// nested && / || / pure conditional expressions) closed by one join block, with no side entrance.
func (e *Engine) shortCircuit(blk *ssa.BasicBlock) bool {
	if r, ok := e.scCache[blk]; ok {
		return r
	}
	res := false
	// candidate joins: blocks with >= 2 predecessors met in a bounded forward search
	var cands []*ssa.BasicBlock
	seen := map[*ssa.BasicBlock]bool{blk: true}
	queue := []*ssa.BasicBlock{blk.Succs[0], blk.Succs[1]}
	for len(queue) > 0 && len(seen) < 40 {
		b := queue[0]
		queue = queue[1:]
		if seen[b] {
			continue
		}
		seen[b] = true
		if len(b.Preds) >= 2 {
			cands = append(cands, b)
		}
		queue = append(queue, b.Succs...)
	}
	for _, J := range cands {
		if e.pureRegion(blk, J) {
			res = true
			break
		}
	}
	e.scCache[blk] = res
	return res
}

func pureInstr(in ssa.Instruction) bool {
	switch x := in.(type) {
	case *ssa.BinOp:
		switch x.Op {
		case token.QUO, token.REM:
			return false
		case token.SHL, token.SHR:
			if _, sg := intWidth(x.Y.Type()); sg {
				return false
			}
		}
		if _, isT := x.X.Type().Underlying().(*types.Basic); !isT {
			return false
		}
		return !isString(x.X.Type())
	case *ssa.UnOp:
		return x.Op != token.MUL && x.Op != token.ARROW
	case *ssa.Convert:
		w1, _ := intWidth(x.Type())
		w2, _ := intWidth(x.X.Type())
		return w1 > 0 && w2 > 0
	case *ssa.ChangeType, *ssa.Phi, *ssa.Extract, *ssa.Field, *ssa.DebugRef, *ssa.Jump, *ssa.If:
		return true
	}
	return false
}

func (e *Engine) pureRegion(blk, J *ssa.BasicBlock) bool {
	const white, grey, black = 0, 1, 2
	color := map[*ssa.BasicBlock]int{}
	ok := true
	var dfs func(b *ssa.BasicBlock)
	dfs = func(b *ssa.BasicBlock) {
		if !ok || b == J {
			return
		}
		if b == blk || color[b] == grey {
			ok = false // cycle
			return
		}
		if color[b] == black {
			return
		}
		if len(color) > 24 || len(b.Succs) == 0 {
			ok = false
			return
		}
		for _, in := range b.Instrs {
			if !pureInstr(in) {
				ok = false
				return
			}
		}
		color[b] = grey
		for _, s := range b.Succs {
			dfs(s)
		}
		color[b] = black
	}
	dfs(blk.Succs[0])
	dfs(blk.Succs[1])
	if !ok {
		return false
	}
	// no side entrance into the region
	for b := range color {
		for _, p := range b.Preds {
			if p != blk && color[p] != black {
				return false
			}
		}
	}
	return true
}

type arrTarget struct {
	g   *Term
	obj int
}

// arrTargets resolves a pointer to an array value into the array objects it may designate (a symbolic offset
// into an array of arrays designates one row per feasible index)
func (e *Engine) arrTargets(st *State, pt Ptr) []arrTarget {
	var out []arrTarget
	for _, al := range pt.alts {
		o := e.obj(st, al.obj)
		if o == nil {
			continue
		}
		if al.off.IsConst() {
			k := int(al.off.val)
			if k < 0 || k >= len(o.cells) {
				continue
			}
			if ar, ok := getPath(o.cells[k], al.path).(ArrRef); ok {
				out = append(out, arrTarget{al.g, ar.obj})
			}
			continue
		}
		for k := range o.cells {
			c := e.And(al.g, e.Eq(al.off, e.Const(64, uint64(k))))
			if c.IsFalse() {
				continue
			}
			if ar, ok := getPath(o.cells[k], al.path).(ArrRef); ok {
				out = append(out, arrTarget{c, ar.obj})
			}
		}
	}
	return out
}

type valAlt struct {
	p *Path
	v uint64
}

// splitOnValues forks p over the feasible concrete values of t (bounded enumeration by the solver)
func (e *Engine) splitOnValues(p *Path, t *Term) []valAlt {
	if t.IsConst() {
		return []valAlt{{p, t.val}}
	}
	seen := map[uint64]bool{}
	budget := 4096
	var vals []uint64
	if iteLeaves(t, seen, &budget) && len(seen) <= 64 {
		for v := range seen {
			vals = append(vals, v)
		}
	} else {
		var complete bool
		vals, complete = e.sol.Enumerate(e.TB, p.st.G, t, 64, e.feasMs)
		if !complete {
			unsup("symbolic size with too many (or undecided) values")
		}
	}
	sort.Slice(vals, func(a, b int) bool { return vals[a] < vals[b] })
	var out []valAlt
	for _, v := range vals {
		c := e.Eq(t, e.Const(t.w, v))
		if !e.feasible(p.st.G, c) {
			continue
		}
		q := e.clonePath(p)
		e.nForks++
		q.st.G = e.And(q.st.G, c)
		out = append(out, valAlt{q, v})
	}
	return out
}

func (e *Engine) makeSliceConcrete(act *Activation, p *Path, x *ssa.MakeSlice) {
	ln, cp := asTerm(p.regs[x.Len]), asTerm(p.regs[x.Cap])
	if int64(ln.val) < 0 || ln.val > cp.val {
		e.panicOutcome(p, e.True, "makeslice: len out of range")
		p.st.G = e.False
		return
	}
	if cp.val > 1<<24 {
		unsup("huge make")
	}
	et := x.Type().Underlying().(*types.Slice).Elem()
	p.regs[x] = e.makeSlice(p.st, et, int(ln.val), int(cp.val))
}
