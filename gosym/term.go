package main

import (
	"fmt"
	"math/bits"
	"strings"
)

// ---- hash-consed terms (width 0 = Bool, 1..64 = BitVec) ----
// A TB (term bank) is private to one engine, so independent instances run in parallel.

type Op uint8

const (
	OpConst Op = iota
	OpVar
	OpNot
	OpAnd
	OpOr
	OpIte
	OpEq
	OpUlt
	OpUle
	OpSlt
	OpSle
	OpAdd
	OpSub
	OpMul
	OpUdiv
	OpUrem
	OpSdiv
	OpSrem
	OpShl
	OpLshr
	OpAshr
	OpBvAnd
	OpBvOr
	OpBvXor
	OpBvNot
	OpNeg
	OpExtract // args[0], hi, lo
	OpZext
	OpSext
	OpConcat
	OpUF // uninterpreted function: name, args (all BitVec), result width w
)

var opName = map[Op]string{OpNot: "not", OpAnd: "and", OpOr: "or", OpIte: "ite", OpEq: "=", OpUlt: "bvult", OpUle: "bvule",
	OpSlt: "bvslt", OpSle: "bvsle", OpAdd: "bvadd", OpSub: "bvsub", OpMul: "bvmul", OpUdiv: "bvudiv", OpUrem: "bvurem",
	OpSdiv: "bvsdiv", OpSrem: "bvsrem", OpShl: "bvshl", OpLshr: "bvlshr", OpAshr: "bvashr", OpBvAnd: "bvand", OpBvOr: "bvor",
	OpBvXor: "bvxor", OpBvNot: "bvnot", OpNeg: "bvneg", OpConcat: "concat"}

type Term struct {
	id     int
	op     Op
	w      int
	args   []*Term
	val    uint64
	name   string
	hi, lo int
}

type termKey struct {
	op         Op
	w          int
	val        uint64
	name       string
	hi, lo     int
	a0, a1, a2 int
	more       string
}

type TB struct {
	tab   map[termKey]*Term
	list  []*Term
	True  *Term
	False *Term
	ufs   map[string][]int // name -> arg widths + result width (last)
}

func NewTB() *TB {
	tb := &TB{tab: map[termKey]*Term{}, ufs: map[string][]int{}}
	tb.True = tb.BoolC(true)
	tb.False = tb.BoolC(false)
	return tb
}

func mask(w int) uint64 {
	if w >= 64 {
		return ^uint64(0)
	}
	return (uint64(1) << uint(w)) - 1
}

func (tb *TB) intern(t *Term) *Term {
	k := termKey{op: t.op, w: t.w, val: t.val, name: t.name, hi: t.hi, lo: t.lo, a0: -1, a1: -1, a2: -1}
	switch len(t.args) {
	case 0:
	case 1:
		k.a0 = t.args[0].id
	case 2:
		k.a0, k.a1 = t.args[0].id, t.args[1].id
	case 3:
		k.a0, k.a1, k.a2 = t.args[0].id, t.args[1].id, t.args[2].id
	default:
		var sb strings.Builder
		for _, a := range t.args {
			fmt.Fprintf(&sb, "%d,", a.id)
		}
		k.more = sb.String()
	}
	if x, ok := tb.tab[k]; ok {
		return x
	}
	t.id = len(tb.list)
	tb.list = append(tb.list, t)
	tb.tab[k] = t
	return t
}

func (tb *TB) Const(w int, v uint64) *Term {
	if w == 0 {
		return tb.BoolC(v != 0)
	}
	return tb.intern(&Term{op: OpConst, w: w, val: v & mask(w)})
}
func (tb *TB) BoolC(b bool) *Term {
	if b {
		return tb.intern(&Term{op: OpConst, w: 0, val: 1})
	}
	return tb.intern(&Term{op: OpConst, w: 0, val: 0})
}

func (tb *TB) Var(name string, w int) *Term { return tb.intern(&Term{op: OpVar, w: w, name: name}) }

func (tb *TB) UF(name string, w int, args ...*Term) *Term {
	sig := make([]int, 0, len(args)+1)
	allConst := true
	for _, a := range args {
		sig = append(sig, a.w)
		if !a.IsConst() {
			allConst = false
		}
	}
	sig = append(sig, w)
	tb.ufs[name] = sig
	if allConst {
		if v, ok := evalUF(name, args); ok {
			return tb.Const(w, v)
		}
	}
	return tb.intern(&Term{op: OpUF, w: w, name: name, args: append([]*Term(nil), args...)})
}

// evalUF gives the intended (real) meaning of the named uninterpreted functions on constants.
func evalUF(name string, args []*Term) (uint64, bool) {
	a := make([]uint64, len(args))
	for i := range a {
		a[i] = args[i].val
	}
	return evalUFv(name, a)
}

func evalUFv(name string, a []uint64) (uint64, bool) {
	switch name {
	case "divq64", "divr64":
		if a[2] == 0 || a[2] <= a[0] {
			return 0, true
		}
		q, r := bits.Div64(a[0], a[1], a[2])
		if name == "divq64" {
			return q, true
		}
		return r, true
	case "mulhi64":
		h, _ := bits.Mul64(a[0], a[1])
		return h, true
	case "mullo64":
		_, l := bits.Mul64(a[0], a[1])
		return l, true
	}
	return 0, false
}

func (t *Term) IsConst() bool { return t.op == OpConst }
func (t *Term) IsTrue() bool  { return t.op == OpConst && t.w == 0 && t.val == 1 }
func (t *Term) IsFalse() bool { return t.op == OpConst && t.w == 0 && t.val == 0 }

func sext64(v uint64, w int) int64 {
	if w >= 64 {
		return int64(v)
	}
	sh := uint(64 - w)
	return int64(v<<sh) >> sh
}

func (tb *TB) Not(a *Term) *Term {
	if a.IsConst() {
		return tb.BoolC(a.val == 0)
	}
	if a.op == OpNot {
		return a.args[0]
	}
	return tb.intern(&Term{op: OpNot, w: 0, args: []*Term{a}})
}

func (tb *TB) And(a, b *Term) *Term {
	if a.IsFalse() || b.IsFalse() {
		return tb.False
	}
	if a.IsTrue() {
		return b
	}
	if b.IsTrue() {
		return a
	}
	if a == b {
		return a
	}
	if tb.Not(a) == b {
		return tb.False
	}
	// absorption: a & (a & x) -> (a & x)
	if b.op == OpAnd && (b.args[0] == a || b.args[1] == a) {
		return b
	}
	if a.op == OpAnd && (a.args[0] == b || a.args[1] == b) {
		return a
	}
	if a.id > b.id {
		a, b = b, a
	}
	return tb.intern(&Term{op: OpAnd, w: 0, args: []*Term{a, b}})
}

func (tb *TB) Or(a, b *Term) *Term {
	if a.IsTrue() || b.IsTrue() {
		return tb.True
	}
	if a.IsFalse() {
		return b
	}
	if b.IsFalse() {
		return a
	}
	if a == b {
		return a
	}
	if tb.Not(a) == b {
		return tb.True
	}
	// (g & c) | (g & !c) -> g
	if a.op == OpAnd && b.op == OpAnd {
		for i := 0; i < 2; i++ {
			for j := 0; j < 2; j++ {
				if a.args[i] == b.args[j] && tb.Not(a.args[1-i]) == b.args[1-j] {
					return a.args[i]
				}
			}
		}
	}
	// a | (a & x) -> a
	if b.op == OpAnd && (b.args[0] == a || b.args[1] == a) {
		return a
	}
	if a.op == OpAnd && (a.args[0] == b || a.args[1] == b) {
		return b
	}
	if a.id > b.id {
		a, b = b, a
	}
	return tb.intern(&Term{op: OpOr, w: 0, args: []*Term{a, b}})
}

func (tb *TB) Implies(a, b *Term) *Term { return tb.Or(tb.Not(a), b) }

func (tb *TB) Ite(c, a, b *Term) *Term {
	if c.IsTrue() {
		return a
	}
	if c.IsFalse() {
		return b
	}
	if a == b {
		return a
	}
	if a.w != b.w {
		panic(fmt.Sprintf("ite width mismatch %d %d", a.w, b.w))
	}
	if a.w == 0 {
		if a.IsTrue() && b.IsFalse() {
			return c
		}
		if a.IsFalse() && b.IsTrue() {
			return tb.Not(c)
		}
		if a.IsTrue() {
			return tb.Or(c, b)
		}
		if a.IsFalse() {
			return tb.And(tb.Not(c), b)
		}
		if b.IsTrue() {
			return tb.Or(tb.Not(c), a)
		}
		if b.IsFalse() {
			return tb.And(c, a)
		}
		return tb.Or(tb.And(c, a), tb.And(tb.Not(c), b))
	}
	if c.op == OpNot {
		return tb.Ite(c.args[0], b, a)
	}
	// ite(c, x, ite(c, y, z)) -> ite(c, x, z)
	if b.op == OpIte && b.args[0] == c {
		return tb.Ite(c, a, b.args[2])
	}
	if a.op == OpIte && a.args[0] == c {
		return tb.Ite(c, a.args[1], b)
	}
	return tb.intern(&Term{op: OpIte, w: a.w, args: []*Term{c, a, b}})
}

func (tb *TB) Eq(a, b *Term) *Term {
	if a == b {
		return tb.True
	}
	if a.w != b.w {
		panic(fmt.Sprintf("eq width mismatch %d %d", a.w, b.w))
	}
	if a.IsConst() && b.IsConst() {
		return tb.BoolC(a.val == b.val)
	}
	if a.w == 0 {
		if a.IsConst() {
			a, b = b, a
		}
		if b.IsTrue() {
			return a
		}
		if b.IsFalse() {
			return tb.Not(a)
		}
		return tb.Or(tb.And(a, b), tb.And(tb.Not(a), tb.Not(b)))
	}
	if a.IsConst() {
		a, b = b, a
	}
	// eq(ite(c,x,y), k): push through when an arm is constant
	if b.IsConst() && a.op == OpIte && (a.args[1].IsConst() || a.args[2].IsConst()) {
		return tb.Ite(a.args[0], tb.Eq(a.args[1], b), tb.Eq(a.args[2], b))
	}
	if b.IsConst() && (a.op == OpZext) {
		in := a.args[0]
		if b.val > mask(in.w) {
			return tb.False
		}
		return tb.Eq(in, tb.Const(in.w, b.val))
	}
	if a.id > b.id {
		a, b = b, a
	}
	return tb.intern(&Term{op: OpEq, w: 0, args: []*Term{a, b}})
}

func cmpFold(op Op, a, b *Term) (bool, bool) {
	if !(a.IsConst() && b.IsConst()) {
		return false, false
	}
	switch op {
	case OpUlt:
		return a.val < b.val, true
	case OpUle:
		return a.val <= b.val, true
	case OpSlt:
		return sext64(a.val, a.w) < sext64(b.val, b.w), true
	case OpSle:
		return sext64(a.val, a.w) <= sext64(b.val, b.w), true
	}
	return false, false
}

func (tb *TB) Cmp(op Op, a, b *Term) *Term {
	if a.w != b.w {
		panic("cmp width mismatch")
	}
	if r, ok := cmpFold(op, a, b); ok {
		return tb.BoolC(r)
	}
	if a == b {
		return tb.BoolC(op == OpUle || op == OpSle)
	}
	if op == OpUlt && b.IsConst() && b.val == 0 {
		return tb.False
	}
	if op == OpUle && a.IsConst() && a.val == 0 {
		return tb.True
	}
	// push comparisons through ite with a constant arm (keeps automaton-state tests small)
	if b.IsConst() && a.op == OpIte && (a.args[1].IsConst() || a.args[2].IsConst()) {
		return tb.Ite(a.args[0], tb.Cmp(op, a.args[1], b), tb.Cmp(op, a.args[2], b))
	}
	if a.IsConst() && b.op == OpIte && (b.args[1].IsConst() || b.args[2].IsConst()) {
		return tb.Ite(b.args[0], tb.Cmp(op, a, b.args[1]), tb.Cmp(op, a, b.args[2]))
	}
	return tb.intern(&Term{op: op, w: 0, args: []*Term{a, b}})
}

func foldBin(op Op, w int, x, y uint64) (uint64, bool) {
	var r uint64
	switch op {
	case OpAdd:
		r = x + y
	case OpSub:
		r = x - y
	case OpMul:
		r = x * y
	case OpBvAnd:
		r = x & y
	case OpBvOr:
		r = x | y
	case OpBvXor:
		r = x ^ y
	case OpShl:
		if y >= uint64(w) {
			r = 0
		} else {
			r = x << y
		}
	case OpLshr:
		if y >= uint64(w) {
			r = 0
		} else {
			r = x >> y
		}
	case OpAshr:
		s := sext64(x, w)
		if y >= uint64(w) {
			y = uint64(w - 1)
		}
		r = uint64(s >> y)
	case OpUdiv:
		if y == 0 {
			r = mask(w)
		} else {
			r = x / y
		}
	case OpUrem:
		if y == 0 {
			r = x
		} else {
			r = x % y
		}
	case OpSdiv:
		if y == 0 {
			if sext64(x, w) < 0 {
				r = 1
			} else {
				r = mask(w)
			}
		} else if sext64(x, w) == -(1<<uint(w-1)) && sext64(y, w) == -1 {
			r = x
		} else {
			r = uint64(sext64(x, w) / sext64(y, w))
		}
	case OpSrem:
		if y == 0 {
			r = x
		} else if sext64(y, w) == -1 {
			r = 0
		} else {
			r = uint64(sext64(x, w) % sext64(y, w))
		}
	default:
		return 0, false
	}
	return r & mask(w), true
}

func (tb *TB) Bin(op Op, a, b *Term) *Term {
	if a.w != b.w {
		panic(fmt.Sprintf("bin %s width mismatch %d %d", opName[op], a.w, b.w))
	}
	w := a.w
	if a.IsConst() && b.IsConst() {
		if r, ok := foldBin(op, w, a.val, b.val); ok {
			return tb.Const(w, r)
		}
	}
	switch op {
	case OpAdd, OpBvOr, OpBvXor:
		if a.IsConst() && a.val == 0 {
			return b
		}
		if b.IsConst() && b.val == 0 {
			return a
		}
		if op == OpBvOr && a == b {
			return a
		}
		if op == OpBvXor && a == b {
			return tb.Const(w, 0)
		}
	case OpSub:
		if b.IsConst() && b.val == 0 {
			return a
		}
		if a == b {
			return tb.Const(w, 0)
		}
	case OpShl, OpLshr, OpAshr:
		if b.IsConst() && b.val == 0 {
			return a
		}
		if a.IsConst() && a.val == 0 {
			return a
		}
		if op != OpAshr && b.IsConst() && b.val >= uint64(w) {
			return tb.Const(w, 0)
		}
	case OpBvAnd:
		if (a.IsConst() && a.val == 0) || (b.IsConst() && b.val == 0) {
			return tb.Const(w, 0)
		}
		if a.IsConst() && a.val == mask(w) {
			return b
		}
		if b.IsConst() && b.val == mask(w) {
			return a
		}
		if a == b {
			return a
		}
	case OpMul:
		if (a.IsConst() && a.val == 0) || (b.IsConst() && b.val == 0) {
			return tb.Const(w, 0)
		}
		if a.IsConst() && a.val == 1 {
			return b
		}
		if b.IsConst() && b.val == 1 {
			return a
		}
	}
	// (x + c1) + c2 -> x + (c1+c2) ; keeps loop counters small
	if (op == OpAdd || op == OpSub) && b.IsConst() && (a.op == OpAdd || a.op == OpSub) && a.args[1].IsConst() {
		c1 := a.args[1].val
		if a.op == OpSub {
			c1 = -c1
		}
		c2 := b.val
		if op == OpSub {
			c2 = -c2
		}
		return tb.Bin(OpAdd, a.args[0], tb.Const(w, c1+c2))
	}
	// distribute over ite with constant arms when the other side is constant (keeps counters concrete-ish)
	if b.IsConst() && a.op == OpIte && (a.args[1].IsConst() || a.args[2].IsConst()) && op != OpMul {
		return tb.Ite(a.args[0], tb.Bin(op, a.args[1], b), tb.Bin(op, a.args[2], b))
	}
	if a.IsConst() && b.op == OpIte && (b.args[1].IsConst() || b.args[2].IsConst()) && op != OpMul {
		return tb.Ite(b.args[0], tb.Bin(op, a, b.args[1]), tb.Bin(op, a, b.args[2]))
	}
	switch op {
	case OpAdd, OpMul, OpBvAnd, OpBvOr, OpBvXor:
		if a.id > b.id {
			a, b = b, a
		}
	}
	return tb.intern(&Term{op: op, w: w, args: []*Term{a, b}})
}

func (tb *TB) Un(op Op, a *Term) *Term {
	if a.IsConst() {
		switch op {
		case OpBvNot:
			return tb.Const(a.w, ^a.val)
		case OpNeg:
			return tb.Const(a.w, -a.val)
		}
	}
	if a.op == op {
		return a.args[0]
	}
	return tb.intern(&Term{op: op, w: a.w, args: []*Term{a}})
}

func (tb *TB) Extract(a *Term, hi, lo int) *Term {
	w := hi - lo + 1
	if w == a.w {
		return a
	}
	if a.IsConst() {
		return tb.Const(w, a.val>>uint(lo))
	}
	if (a.op == OpZext || a.op == OpSext) && lo == 0 && w <= a.args[0].w {
		return tb.Extract(a.args[0], hi, 0)
	}
	if a.op == OpZext && lo >= a.args[0].w {
		return tb.Const(w, 0)
	}
	if a.op == OpIte && (a.args[1].IsConst() || a.args[2].IsConst()) {
		return tb.Ite(a.args[0], tb.Extract(a.args[1], hi, lo), tb.Extract(a.args[2], hi, lo))
	}
	if a.op == OpExtract {
		return tb.Extract(a.args[0], hi+a.lo, lo+a.lo)
	}
	return tb.intern(&Term{op: OpExtract, w: w, args: []*Term{a}, hi: hi, lo: lo})
}

func (tb *TB) Zext(a *Term, w int) *Term {
	if w == a.w {
		return a
	}
	if w < a.w {
		return tb.Extract(a, w-1, 0)
	}
	if a.IsConst() {
		return tb.Const(w, a.val)
	}
	if a.op == OpIte && (a.args[1].IsConst() || a.args[2].IsConst()) {
		return tb.Ite(a.args[0], tb.Zext(a.args[1], w), tb.Zext(a.args[2], w))
	}
	if a.op == OpZext {
		return tb.Zext(a.args[0], w)
	}
	return tb.intern(&Term{op: OpZext, w: w, args: []*Term{a}, hi: w - a.w})
}

func (tb *TB) Sext(a *Term, w int) *Term {
	if w == a.w {
		return a
	}
	if w < a.w {
		return tb.Extract(a, w-1, 0)
	}
	if a.IsConst() {
		return tb.Const(w, uint64(sext64(a.val, a.w)))
	}
	if a.op == OpIte && (a.args[1].IsConst() || a.args[2].IsConst()) {
		return tb.Ite(a.args[0], tb.Sext(a.args[1], w), tb.Sext(a.args[2], w))
	}
	if a.op == OpZext {
		return tb.Zext(a.args[0], w)
	}
	return tb.intern(&Term{op: OpSext, w: w, args: []*Term{a}, hi: w - a.w})
}

// ---- SMT-LIB printing ----

func sortOf(w int) string {
	if w == 0 {
		return "Bool"
	}
	return fmt.Sprintf("(_ BitVec %d)", w)
}

func (t *Term) ref() string {
	switch t.op {
	case OpConst:
		if t.w == 0 {
			if t.val != 0 {
				return "true"
			}
			return "false"
		}
		return fmt.Sprintf("(_ bv%d %d)", t.val, t.w)
	case OpVar:
		return t.name
	}
	return fmt.Sprintf("t%d", t.id)
}

func (t *Term) body() string {
	switch t.op {
	case OpExtract:
		return fmt.Sprintf("((_ extract %d %d) %s)", t.hi, t.lo, t.args[0].ref())
	case OpZext:
		return fmt.Sprintf("((_ zero_extend %d) %s)", t.hi, t.args[0].ref())
	case OpSext:
		return fmt.Sprintf("((_ sign_extend %d) %s)", t.hi, t.args[0].ref())
	}
	var sb strings.Builder
	if t.op == OpUF {
		sb.WriteString("(" + t.name)
	} else {
		sb.WriteString("(" + opName[t.op])
	}
	for _, a := range t.args {
		sb.WriteString(" " + a.ref())
	}
	sb.WriteString(")")
	return sb.String()
}

// ---- concrete evaluation under an assignment of the variables (model cache, concrete replay) ----

type Model struct {
	vals map[string]uint64
	memo map[int]uint64
	done map[int]bool
}

func NewModel(vals map[string]uint64) *Model {
	return &Model{vals: vals, memo: map[int]uint64{}, done: map[int]bool{}}
}

func (m *Model) Eval(t *Term) uint64 {
	if t.op == OpConst {
		return t.val
	}
	if m.done[t.id] {
		return m.memo[t.id]
	}
	// iterative post-order to avoid deep recursion
	type fr struct {
		t *Term
		i int
	}
	st := []fr{{t, 0}}
	for len(st) > 0 {
		f := &st[len(st)-1]
		x := f.t
		if x.op == OpConst || m.done[x.id] {
			st = st[:len(st)-1]
			continue
		}
		// short-circuit ite: evaluate condition first, then only the chosen arm
		if x.op == OpIte {
			c := x.args[0]
			if c.op != OpConst && !m.done[c.id] {
				st = append(st, fr{c, 0})
				continue
			}
			var arm *Term
			if m.get(c) != 0 {
				arm = x.args[1]
			} else {
				arm = x.args[2]
			}
			if arm.op != OpConst && !m.done[arm.id] {
				st = append(st, fr{arm, 0})
				continue
			}
			m.memo[x.id] = m.get(arm)
			m.done[x.id] = true
			st = st[:len(st)-1]
			continue
		}
		if f.i < len(x.args) {
			a := x.args[f.i]
			f.i++
			if a.op != OpConst && !m.done[a.id] {
				st = append(st, fr{a, 0})
			}
			continue
		}
		m.memo[x.id] = m.compute(x)
		m.done[x.id] = true
		st = st[:len(st)-1]
	}
	return m.memo[t.id]
}

func (m *Model) get(t *Term) uint64 {
	if t.op == OpConst {
		return t.val
	}
	return m.memo[t.id]
}

func b2u(b bool) uint64 {
	if b {
		return 1
	}
	return 0
}

func (m *Model) compute(x *Term) uint64 {
	a := func(i int) uint64 { return m.get(x.args[i]) }
	switch x.op {
	case OpVar:
		if x.w == 0 {
			return b2u(m.vals[x.name] != 0)
		}
		return m.vals[x.name] & mask(x.w)
	case OpNot:
		return b2u(a(0) == 0)
	case OpAnd:
		return b2u(a(0) != 0 && a(1) != 0)
	case OpOr:
		return b2u(a(0) != 0 || a(1) != 0)
	case OpEq:
		return b2u(a(0) == a(1))
	case OpUlt:
		return b2u(a(0) < a(1))
	case OpUle:
		return b2u(a(0) <= a(1))
	case OpSlt:
		return b2u(sext64(a(0), x.args[0].w) < sext64(a(1), x.args[1].w))
	case OpSle:
		return b2u(sext64(a(0), x.args[0].w) <= sext64(a(1), x.args[1].w))
	case OpBvNot:
		return ^a(0) & mask(x.w)
	case OpNeg:
		return -a(0) & mask(x.w)
	case OpExtract:
		return (a(0) >> uint(x.lo)) & mask(x.w)
	case OpZext:
		return a(0)
	case OpSext:
		return uint64(sext64(a(0), x.args[0].w)) & mask(x.w)
	case OpConcat:
		return (a(0)<<uint(x.args[1].w) | a(1)) & mask(x.w)
	case OpUF:
		av := make([]uint64, len(x.args))
		for i := range av {
			av[i] = a(i)
		}
		if v, ok := evalUFv(x.name, av); ok {
			return v & mask(x.w)
		}
		return 0
	}
	r, ok := foldBin(x.op, x.w, a(0), a(1))
	if !ok {
		panic("eval: op " + opName[x.op])
	}
	return r
}
