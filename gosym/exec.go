package main

import (
	"fmt"
	"go/constant"
	"go/token"
	"go/types"
	"sort"
	"strings"
	"time"

	"golang.org/x/tools/go/ssa"
)

type Outcome struct {
	g     *Term
	label string
	pos   string
}

type Result struct {
	st  *State
	val Value
}

// a catch frame collects the states in which a panic / fatal happened inside vCatch
type catchFrame struct {
	caught []caughtState
}
type caughtState struct {
	st    *State
	kind  int // 1 panic, 2 fatal
	label string
}

type Engine struct {
	*TB
	prog      *ssa.Program
	sol       *Solver
	nextObj   int
	stampCtr  int
	base      map[int]*Obj
	globals   map[*ssa.Global]int
	strConst  map[string]StrV
	asserts   []Outcome
	panics    []Outcome
	fatals    []Outcome
	reaches   []Outcome
	unwinds   []Outcome
	observes  []Observe
	vars      []*Term
	varKinds  []string
	feas      map[int]bool
	models    []*Model
	sens      map[*ssa.Function]map[ssa.Value]bool
	order     map[*ssa.Function][]int
	comps     map[*ssa.Function][][2]int
	initDone  map[*ssa.Package]bool
	initBusy  map[*ssa.Package]bool
	initState *State
	nVisits   int
	nMerges   int
	nForks    int
	nPaths    int
	nFeasHit  int
	funcsRun  map[string]int
	harnessPk *ssa.Package
	trace     bool
	catch     []*catchFrame
	stubs     map[string]*ssa.Function
	taskCtr   int
	unwindCap int
	feasMs    int
	concrete  []uint64 // replay vector: inputs are bound to these constants instead of fresh variables
	concIdx   int
	isConc    bool
	skipped   bool
	assumes   []string
	depthNow  int
	nPoison   int
	pin       []uint64
	varAlpha  map[int][]uint64 // inputs drawn as selectors of a small alphabet: index -> letters
	splitRet  bool
	tValues   time.Duration
	nValues   int
	logic     string
	mergeStrict bool
	ufLemmas  []*Term
	feasSites map[string]int
	scCache   map[*ssa.BasicBlock]bool
	modelsUsed map[string]int
	initNotes []string
	deadline  int64
}

type Observe struct {
	label string
	g     *Term
	v     *Term
}

// ---------- analysis: sensitivity and weak topological order ----------

func (e *Engine) sensitive(fn *ssa.Function) map[ssa.Value]bool {
	if s, ok := e.sens[fn]; ok {
		return s
	}
	s := map[ssa.Value]bool{}
	var work []ssa.Value
	mark := func(v ssa.Value) {
		if v == nil || s[v] {
			return
		}
		if _, ok := v.(*ssa.Const); ok {
			return
		}
		s[v] = true
		work = append(work, v)
	}
	for _, b := range fn.Blocks {
		for _, in := range b.Instrs {
			switch x := in.(type) {
			case *ssa.IndexAddr:
				mark(x.Index)
			case *ssa.Index:
				mark(x.Index)
			case *ssa.Lookup:
				if _, ok := x.X.Type().Underlying().(*types.Basic); ok {
					mark(x.Index)
				}
			case *ssa.Slice:
				mark(x.Low)
				mark(x.High)
				mark(x.Max)
			case *ssa.MakeSlice:
				mark(x.Len)
				mark(x.Cap)
			}
		}
	}
	for len(work) > 0 {
		v := work[len(work)-1]
		work = work[:len(work)-1]
		switch x := v.(type) {
		case *ssa.Phi:
			for _, ed := range x.Edges {
				mark(ed)
			}
		case *ssa.BinOp:
			if w, _ := intWidth(x.Type()); w > 0 {
				switch x.Op {
				case token.ADD, token.SUB:
					mark(x.X)
					mark(x.Y)
				}
			}
		case *ssa.Convert:
			if w, _ := intWidth(x.X.Type()); w > 0 {
				mark(x.X)
			}
		case *ssa.ChangeType:
			mark(x.X)
		case *ssa.UnOp:
			if x.Op == token.SUB {
				mark(x.X)
			}
		}
	}
	e.sens[fn] = s
	return s
}

func (e *Engine) wto(fn *ssa.Function) []int {
	if o, ok := e.order[fn]; ok {
		return o
	}
	n := len(fn.Blocks)
	const inf = 1 << 30
	dfn := make([]int, n)
	num := 0
	var stack []int
	var out []int
	var comps [][]int
	var visit func(v int) int
	var component func(v int)
	visit = func(v int) int {
		stack = append(stack, v)
		num++
		dfn[v] = num
		head := num
		loop := false
		for _, sb := range fn.Blocks[v].Succs {
			s := sb.Index
			var m int
			if dfn[s] == 0 {
				m = visit(s)
			} else {
				m = dfn[s]
			}
			if m <= head {
				head = m
				loop = true
			}
		}
		if head == dfn[v] {
			dfn[v] = inf
			el := stack[len(stack)-1]
			stack = stack[:len(stack)-1]
			if loop {
				for el != v {
					dfn[el] = 0
					el = stack[len(stack)-1]
					stack = stack[:len(stack)-1]
				}
				component(v)
			} else {
				out = append([]int{v}, out...)
			}
		}
		return head
	}
	component = func(v int) {
		saved := out
		out = nil
		for _, sb := range fn.Blocks[v].Succs {
			if dfn[sb.Index] == 0 {
				visit(sb.Index)
			}
		}
		comp := append([]int{v}, out...)
		comps = append(comps, append([]int(nil), comp...))
		out = append(comp, saved...)
	}
	visit(0)
	pos := make([]int, n)
	for i := range pos {
		pos[i] = inf
	}
	for i, b := range out {
		pos[b] = i
	}
	var iv [][2]int
	for _, c := range comps {
		lo, hi := inf, -1
		for _, b := range c {
			if pos[b] < lo {
				lo = pos[b]
			}
			if pos[b] > hi {
				hi = pos[b]
			}
		}
		iv = append(iv, [2]int{lo, hi})
	}
	// innermost first: sort by size
	sort.Slice(iv, func(i, j int) bool { return iv[i][1]-iv[i][0] < iv[j][1]-iv[j][0] })
	e.comps[fn] = iv
	e.order[fn] = pos
	return pos
}

// ---------- activation ----------

type deferred struct {
	fn   *ssa.Function
	args []Value
	env  []Value
	bi   *ssa.Builtin
	cc   *ssa.CallCommon
	ifc  *IfaceV
	id   int
}

type Path struct {
	st     *State
	regs   map[ssa.Value]Value
	pred   *ssa.BasicBlock
	defers []deferred
}

func (e *Engine) clonePath(p *Path) *Path {
	n := &Path{st: e.fork(p.st), regs: make(map[ssa.Value]Value, len(p.regs)), pred: p.pred, defers: p.defers}
	for k, v := range p.regs {
		n.regs[k] = v
	}
	return n
}

type Activation struct {
	fn      *ssa.Function
	pos     []int
	sens    map[ssa.Value]bool
	sensLst []ssa.Value
	pending map[int][]*Path
	results []Result
	depth   int
	visits  map[int]int
	lastPos int
}

// feasible: is g ∧ c satisfiable?  unknown counts as feasible.
func (e *Engine) feasible(g, c *Term) bool {
	x := e.And(g, c)
	if x.IsFalse() {
		return false
	}
	if x.IsTrue() {
		return true
	}
	if r, ok := e.feas[x.id]; ok {
		return r
	}
	for _, m := range e.models {
		if m.Eval(x) != 0 {
			e.nFeasHit++
			e.feas[x.id] = true
			return true
		}
	}
	if e.isConc {
		// concrete replay: everything folds; reaching here means a symbolic leftover
		e.feas[x.id] = true
		return true
	}
	t0 := time.Now()
	r := e.sol.Check(e.feasMs, x)
	dCheck := time.Since(t0)
	if r == "sat" && len(e.vars) > 0 {
		// reading a model costs a model construction over every defined term: only worth it when checks are
		// expensive compared with it (a cached model saves later checks)
		avgVal := time.Duration(0)
		if e.nValues > 0 {
			avgVal = e.tValues / time.Duration(e.nValues)
		}
		if e.nValues < 4 || dCheck*2 > avgVal || e.sol.nCheck%16 == 0 {
			t1 := time.Now()
			var vars []*Term
			for _, v := range e.vars {
				if v != nil {
					vars = append(vars, v)
				}
			}
			m := NewModel(e.sol.Values(vars))
			e.tValues += time.Since(t1)
			e.nValues++
			e.models = append(e.models, m)
			if len(e.models) > 40 {
				e.models = e.models[1:]
			}
		}
	}
	e.sol.Pop()
	ok := r != "unsat"
	e.feas[x.id] = ok
	return ok
}

func (e *Engine) callFunction(fn *ssa.Function, args []Value, env []Value, st *State, depth int) []Result {
	if depth > 300 {
		unsup("call depth")
	}
	if fn.Blocks == nil {
		unsup("no body: %s", fn.String())
	}
	e.funcsRun[fn.String()]++
	splitRet := e.splitRet
	e.splitRet = false
	defer func() { e.splitRet = splitRet }()
	act := &Activation{fn: fn, pos: e.wto(fn), sens: e.sensitive(fn), pending: map[int][]*Path{}, depth: depth, visits: map[int]int{}}
	for v := range act.sens {
		act.sensLst = append(act.sensLst, v)
	}
	sort.Slice(act.sensLst, func(i, j int) bool { return act.sensLst[i].Name() < act.sensLst[j].Name() })
	p := &Path{st: st, regs: map[ssa.Value]Value{}}
	if len(args) < len(fn.Params) {
		unsup("call of %s with %d args (want %d)", fn.Name(), len(args), len(fn.Params))
	}
	for i, prm := range fn.Params {
		p.regs[prm] = args[i]
	}
	for i, fv := range fn.FreeVars {
		if i >= len(env) {
			unsup("closure %s called without its environment", fn.Name())
		}
		p.regs[fv] = env[i]
	}
	act.pending[0] = []*Path{p}
	for len(act.pending) > 0 {
		best := e.pick(act)
		act.lastPos = act.pos[best]
		paths := act.pending[best]
		delete(act.pending, best)
		blk := fn.Blocks[best]
		act.visits[best]++
		e.nVisits++
		if e.deadline != 0 && e.nVisits%32 == 0 && time.Now().UnixNano() > e.deadline {
			panic(timeoutErr{})
		}
		if act.visits[best] > e.unwindCap {
			// unwinding budget: the states that still want to continue become unwinding assertions
			for _, q := range paths {
				e.unwinds = append(e.unwinds, Outcome{q.st.G, fmt.Sprintf("%s block %d", fn.String(), best), ""})
			}
			continue
		}
		for _, q := range paths {
			e.evalPhis(q, blk)
		}
		for _, grp := range e.group(act, paths) {
			for _, m := range e.mergePaths(grp) {
				e.execFrom(act, m, blk, firstNonPhi(blk))
			}
		}
	}
	e.splitRet = splitRet
	return e.mergeResults(act.results)
}

// pick follows Bourdoncle's recursive iteration strategy: stay inside the innermost component (loop)
// that still has pending blocks, sweeping forward in WTO order and wrapping to its head.
func (e *Engine) pick(act *Activation) int {
	comps := e.comps[act.fn]
	try := func(c [2]int) int {
		if act.lastPos < c[0] || act.lastPos > c[1] {
			return -1
		}
		fwd, any := -1, -1
		for b := range act.pending {
			p := act.pos[b]
			if p < c[0] || p > c[1] {
				continue
			}
			if any < 0 || p < act.pos[any] {
				any = b
			}
			if p > act.lastPos && (fwd < 0 || p < act.pos[fwd]) {
				fwd = b
			}
		}
		if fwd >= 0 {
			return fwd
		}
		return any
	}
	for _, c := range comps {
		if r := try(c); r >= 0 {
			return r
		}
	}
	if r := try([2]int{0, 1 << 30}); r >= 0 {
		return r
	}
	panic("pick: nothing pending")
}

func firstNonPhi(b *ssa.BasicBlock) int {
	for i, in := range b.Instrs {
		if _, ok := in.(*ssa.Phi); !ok {
			return i
		}
	}
	return len(b.Instrs)
}

func (e *Engine) evalPhis(p *Path, blk *ssa.BasicBlock) {
	if p.pred == nil {
		return
	}
	idx := -1
	for i, pr := range blk.Preds {
		if pr == p.pred {
			idx = i
		}
	}
	var vals []Value
	var phis []*ssa.Phi
	for _, in := range blk.Instrs {
		ph, ok := in.(*ssa.Phi)
		if !ok {
			break
		}
		phis = append(phis, ph)
		vals = append(vals, e.val(p, ph.Edges[idx]))
	}
	for i, ph := range phis {
		p.regs[ph] = vals[i]
	}
}

func sensKey(sb *strings.Builder, name string, rv Value) {
	switch t := rv.(type) {
	case *Term:
		if t.IsConst() {
			fmt.Fprintf(sb, "%s=c%d;", name, t.val)
		} else {
			fmt.Fprintf(sb, "%s=s%d;", name, t.id)
		}
	}
}

func (e *Engine) group(act *Activation, paths []*Path) [][]*Path {
	if len(paths) == 1 {
		return [][]*Path{paths}
	}
	keys := map[string][]*Path{}
	var order []string
	for _, p := range paths {
		var sb strings.Builder
		for _, v := range act.sensLst {
			if rv, ok := p.regs[v]; ok {
				sensKey(&sb, v.Name(), rv)
			}
		}
		fmt.Fprintf(&sb, "d%d", len(p.defers))
		for _, d := range p.defers {
			fmt.Fprintf(&sb, ",%d", d.id)
		}
		fmt.Fprintf(&sb, "t%d", len(p.st.tasks))
		k := sb.String()
		if _, ok := keys[k]; !ok {
			order = append(order, k)
		}
		keys[k] = append(keys[k], p)
	}
	var out [][]*Path
	for _, k := range order {
		out = append(out, keys[k])
	}
	return out
}

type mergeFail struct{ why string }

// mergePaths merges the group into as few paths as possible (one, unless the heaps are structurally incompatible)
func (e *Engine) mergePaths(grp []*Path) []*Path {
	if len(grp) == 1 {
		return grp
	}
	var out []*Path
	for _, p := range grp {
		merged := false
		for i, m := range out {
			if n := e.tryMerge2(m, p); n != nil {
				out[i] = n
				merged = true
				break
			}
		}
		if !merged {
			out = append(out, p)
		}
	}
	return out
}

func (e *Engine) tryMerge2(a, b *Path) (res *Path) {
	saved := e.mergeStrict
	e.mergeStrict = true
	defer func() {
		e.mergeStrict = saved
		if r := recover(); r != nil {
			if u, ok := r.(unsupported); ok && (strings.HasPrefix(u.msg, "merging ")) {
				res = nil
				return
			}
			panic(r)
		}
	}()
	regs := make(map[ssa.Value]Value, len(a.regs))
	for k, v := range a.regs {
		regs[k] = v
	}
	for k, v := range b.regs {
		if old, ok := regs[k]; ok {
			regs[k] = e.mergeValue(b.st.G, v, old)
		} else {
			regs[k] = v
		}
	}
	st := e.mergeStates([]*State{a.st, b.st})
	return &Path{st: st, regs: regs, defers: a.defers}
}

func (e *Engine) mergeResults(rs []Result) []Result {
	if len(rs) <= 1 {
		return rs
	}
	e.nPaths += len(rs)
	var out []Result
	for _, r := range rs {
		merged := false
		for i := range out {
			if n, ok := e.tryMergeRes(out[i], r); ok {
				out[i] = n
				merged = true
				break
			}
		}
		if !merged {
			out = append(out, r)
		}
	}
	return out
}

func (e *Engine) tryMergeRes(a, b Result) (res Result, ok bool) {
	saved := e.mergeStrict
	e.mergeStrict = true
	defer func() {
		e.mergeStrict = saved
		if r := recover(); r != nil {
			if u, isU := r.(unsupported); isU && strings.HasPrefix(u.msg, "merging ") {
				ok = false
				return
			}
			panic(r)
		}
	}()
	// do not merge results whose values differ in concrete length/index-like scalars of slices (keeps sizes concrete)
	if !e.mergeableResult(a.val, b.val) {
		return Result{}, false
	}
	v := e.mergeValue(b.st.G, b.val, a.val)
	st := e.mergeStates([]*State{a.st, b.st})
	return Result{st, v}, true
}

// results with different concrete slice/string lengths, or different pointer targets, stay separate paths
func (e *Engine) mergeableResult(a, b Value) bool {
	switch x := a.(type) {
	case *Term:
		if e.splitRet {
			if y, ok := b.(*Term); ok && x != y && x.w > 1 {
				return false
			}
		}
	case SliceV:
		y, ok := b.(SliceV)
		if !ok {
			return false
		}
		return x.len == y.len && x.cap == y.cap && e.sameTargets(x.p, y.p)
	case StrV:
		y, ok := b.(StrV)
		if !ok {
			return false
		}
		return x.len == y.len && e.sameTargets(x.p, y.p)
	case TupleV:
		y, ok := b.(TupleV)
		if !ok || len(x) != len(y) {
			return false
		}
		for i := range x {
			if !e.mergeableResult(x[i], y[i]) {
				return false
			}
		}
	case StructV:
		y, ok := b.(StructV)
		if !ok || len(x.f) != len(y.f) {
			return false
		}
		for i := range x.f {
			if !e.mergeableResult(x.f[i], y.f[i]) {
				return false
			}
		}
	case MapV:
		_, ok := b.(MapV)
		return ok
	case ChanV:
		y, ok := b.(ChanV)
		return ok && x == y
	case FuncV:
		y, ok := b.(FuncV)
		return ok && x.fn == y.fn && e.identical(a, b)
	case FloatV:
		return e.identical(a, b)
	case ArrRef:
		return e.identical(a, b)
	}
	return true
}

func (e *Engine) sameTargets(x, y Ptr) bool {
	if len(x.alts) != len(y.alts) {
		return len(x.alts) == 0 || len(y.alts) == 0 // nil vs non-nil may merge
	}
	for i := range x.alts {
		if x.alts[i].obj != y.alts[i].obj || x.alts[i].off != y.alts[i].off {
			return false
		}
	}
	return true
}

// ---------- values of operands ----------

func (e *Engine) constVal(st *State, c *ssa.Const) Value {
	t := c.Type()
	if c.Value == nil {
		return e.zero(st, t)
	}
	if w, _ := intWidth(t); w >= 0 {
		if w == 0 {
			return e.BoolC(constant.BoolVal(c.Value))
		}
		if i, ok := constant.Int64Val(constant.ToInt(c.Value)); ok {
			return e.Const(w, uint64(i))
		}
		u, _ := constant.Uint64Val(constant.ToInt(c.Value))
		return e.Const(w, u)
	}
	if isFloat(t) {
		f, _ := constant.Float64Val(c.Value)
		return FloatV(f)
	}
	if isString(t) {
		return e.mkString(constant.StringVal(c.Value))
	}
	unsup("const of type %s", t)
	return nil
}

// string constants live in the shared read-only base heap
func (e *Engine) mkString(s string) StrV {
	if len(s) == 0 {
		return StrV{len: e.Const(64, 0)}
	}
	if v, ok := e.strConst[s]; ok {
		return v
	}
	cells := make([]Value, len(s))
	for i := range cells {
		cells[i] = e.Const(8, uint64(s[i]))
	}
	id := e.newObj(nil, cells)
	e.base[id].ro = true
	v := StrV{e.ptrTo(id, 0), e.Const(64, uint64(len(s)))}
	e.strConst[s] = v
	return v
}

func (e *Engine) val(p *Path, v ssa.Value) Value {
	switch x := v.(type) {
	case *ssa.Const:
		return e.constVal(p.st, x)
	case *ssa.Global:
		return e.globalPtr(x)
	case *ssa.Function:
		return FuncV{fn: x}
	case *ssa.Builtin:
		return x
	}
	r, ok := p.regs[v]
	if !ok {
		unsup("undefined register %s in %s", v.Name(), v.Parent())
	}
	return r
}
