package main

import (
	"go/types"
	"sort"
	"strings"

	"golang.org/x/tools/go/ssa"
)

// ---------- calls ----------

func (e *Engine) doCall(p *Path, x *ssa.Call, act *Activation) []Result {
	cc := x.Common()
	args := make([]Value, len(cc.Args))
	for i, a := range cc.Args {
		args[i] = e.val(p, a)
	}
	if b, ok := cc.Value.(*ssa.Builtin); ok {
		if b.Name() == "append" || b.Name() == "copy" {
			// slice lengths must be concrete for these: split the path over the feasible lengths
			var out []Result
			for _, alt := range e.concretizeLens(p, args) {
				v := e.builtin(alt.p, b.Name(), cc, alt.args, act)
				if !alt.p.st.G.IsFalse() {
					out = append(out, Result{alt.p.st, v})
				}
			}
			return out
		}
		v := e.builtin(p, b.Name(), cc, args, act)
		if p.st.G.IsFalse() {
			return nil
		}
		return []Result{{p.st, v}}
	}
	if cc.IsInvoke() {
		iv, ok := e.val(p, cc.Value).(IfaceV)
		if !ok {
			unsup("invoke on %T", e.val(p, cc.Value))
		}
		return e.invoke(p, cc.Method, iv, args, act.depth, x.Type())
	}
	var fn *ssa.Function
	var env []Value
	if sc := cc.StaticCallee(); sc != nil {
		fn = sc
		if mc, ok := cc.Value.(*ssa.MakeClosure); ok {
			env = e.val(p, mc).(FuncV).env
		}
	} else {
		fv, ok := e.val(p, cc.Value).(FuncV)
		if !ok {
			unsup("dynamic call of %T", e.val(p, cc.Value))
		}
		if fv.fn == nil {
			e.panicOutcome(p, e.True, "call of nil func")
			return nil
		}
		fn, env = fv.fn, fv.env
	}
	// a result that flows into an index / slice bound / make size of the caller stays concrete: the callee's
	// return states are then not merged when they differ in that value
	saved := e.splitRet
	e.splitRet = e.retIsSensitive(x, act)
	defer func() { e.splitRet = saved }()
	return e.callFn(p, fn, args, env, act.depth, x.Type())
}

func (e *Engine) retIsSensitive(x *ssa.Call, act *Activation) bool {
	if act.sens[x] {
		return true
	}
	if refs := x.Referrers(); refs != nil {
		for _, r := range *refs {
			if ex, ok := r.(*ssa.Extract); ok && act.sens[ex] {
				return true
			}
		}
	}
	return false
}

// callFn: stubs, models, then the SSA body
func (e *Engine) callFn(p *Path, fn *ssa.Function, args, env []Value, depth int, rt types.Type) []Result {
	full := fn.String()
	if o := fn.Origin(); o != nil {
		// generic instance: also try the origin's name for stubs/models
		if st, ok := e.stubs[o.String()]; ok {
			return e.callFunction(st, args, nil, p.st, depth+1)
		}
	}
	if st, ok := e.stubs[full]; ok {
		return e.callFunction(st, args, nil, p.st, depth+1)
	}
	if fn.Pkg == e.harnessPk && fn.Pkg != nil && strings.HasPrefix(fn.Name(), "v") && fn.Signature.Recv() == nil {
		if r, ok := e.intrinsic(p, fn.Name(), args, depth); ok {
			return r
		}
	}
	if rs, ok := e.model(p, fn, full, args, depth, rt); ok {
		return rs
	}
	if fn.Blocks == nil {
		unsup("no body and no model: %s", full)
	}
	return e.callFunction(fn, args, env, p.st, depth+1)
}

func (e *Engine) one(p *Path, v Value) []Result {
	if p.st.G.IsFalse() {
		return nil
	}
	return []Result{{p.st, v}}
}

// ----- interface method dispatch -----

func (e *Engine) methodOf(t types.Type, m *types.Func) *ssa.Function {
	ms := e.prog.MethodSets.MethodSet(t)
	sel := ms.Lookup(m.Pkg(), m.Name())
	if sel == nil {
		return nil
	}
	return e.prog.MethodValue(sel)
}

func (e *Engine) invoke(p *Path, m *types.Func, recv IfaceV, args []Value, depth int, rt types.Type) []Result {
	nn := e.ifaceNotNil(recv)
	if !e.check(p, nn, "nil interface method call ("+m.Name()+")") {
		return nil
	}
	var alts []IfaceAlt
	for _, al := range recv.alts {
		if al.typ != nil && e.feasible(p.st.G, al.g) {
			alts = append(alts, al)
		}
	}
	if len(alts) == 0 {
		return nil
	}
	var out []Result
	for i, al := range alts {
		q := p
		if len(alts) > 1 {
			if i < len(alts)-1 {
				q = e.clonePath(p)
			}
			q.st.G = e.And(q.st.G, al.g)
			if q.st.G.IsFalse() {
				continue
			}
		}
		fn := e.methodOf(al.typ, m)
		if fn == nil {
			unsup("method %s not found on %s", m.Name(), al.typ)
		}
		out = append(out, e.callFn(q, fn, append([]Value{al.val}, args...), nil, depth, rt)...)
	}
	return out
}

// ----- defers -----

func (e *Engine) pushDefer(p *Path, x *ssa.Defer) {
	cc := x.Common()
	args := make([]Value, len(cc.Args))
	for k, a := range cc.Args {
		args[k] = e.val(p, a)
	}
	e.taskCtr++
	d := deferred{args: args, cc: cc, id: e.taskCtr}
	switch {
	case cc.IsInvoke():
		iv := e.val(p, cc.Value).(IfaceV)
		d.ifc = &iv
	default:
		if b, ok := cc.Value.(*ssa.Builtin); ok {
			d.bi = b
		} else if sc := cc.StaticCallee(); sc != nil {
			d.fn = sc
			if mc, ok := cc.Value.(*ssa.MakeClosure); ok {
				d.env = e.val(p, mc).(FuncV).env
			}
		} else {
			fv, ok := e.val(p, cc.Value).(FuncV)
			if !ok {
				unsup("defer of %T", e.val(p, cc.Value))
			}
			d.fn, d.env = fv.fn, fv.env
		}
	}
	p.defers = append(append([]deferred(nil), p.defers...), d)
}

func (e *Engine) runDefers(p *Path, act *Activation) []*Path {
	paths := []*Path{p}
	for len(p.defers) > 0 {
		d := p.defers[len(p.defers)-1]
		rest := p.defers[:len(p.defers)-1]
		var next []*Path
		for _, q := range paths {
			q.defers = rest
			var rs []Result
			switch {
			case d.bi != nil:
				e.builtin(q, d.bi.Name(), d.cc, d.args, act)
				rs = e.one(q, nil)
			case d.ifc != nil:
				rs = e.invoke(q, d.cc.Method, *d.ifc, d.args, act.depth, nil)
			default:
				if d.fn == nil {
					e.panicOutcome(q, e.True, "deferred nil func")
					continue
				}
				rs = e.callFn(q, d.fn, d.args, d.env, act.depth, nil)
			}
			for k, r := range rs {
				if k == 0 {
					q.st = r.st
					next = append(next, q)
				} else {
					n := &Path{st: r.st, regs: make(map[ssa.Value]Value, len(q.regs)), pred: q.pred, defers: rest}
					for a, b := range q.regs {
						n.regs[a] = b
					}
					next = append(next, n)
				}
			}
		}
		paths = next
		p.defers = rest
		if len(paths) == 0 {
			return nil
		}
	}
	return paths
}

// ----- builtins -----

func (e *Engine) builtin(p *Path, name string, cc *ssa.CallCommon, args []Value, act *Activation) Value {
	switch name {
	case "len":
		switch a := args[0].(type) {
		case SliceV:
			return a.len
		case StrV:
			return a.len
		case ArrRef:
			return e.Const(64, uint64(len(e.obj(p.st, a.obj).cells)))
		case MapV:
			return e.mapLen(p.st, a)
		case ChanV:
			return e.Const(64, 0)
		case Ptr: // pointer to array
			if ar, ok := e.load(p.st, a).(ArrRef); ok {
				return e.Const(64, uint64(len(e.obj(p.st, ar.obj).cells)))
			}
		}
	case "cap":
		switch a := args[0].(type) {
		case SliceV:
			return a.cap
		case ArrRef:
			return e.Const(64, uint64(len(e.obj(p.st, a.obj).cells)))
		case ChanV:
			return e.Const(64, 0)
		}
	case "max", "min":
		if f, ok := args[0].(FloatV); ok {
			r := f
			for _, a := range args[1:] {
				g := a.(FloatV)
				if (name == "max" && g > r) || (name == "min" && g < r) {
					r = g
				}
			}
			return r
		}
		_, sg := intWidth(cc.Args[0].Type())
		r := asTerm(args[0])
		for _, a := range args[1:] {
			t := asTerm(a)
			var c *Term
			lt := OpUlt
			if sg {
				lt = OpSlt
			}
			if name == "max" {
				c = e.Cmp(lt, r, t)
			} else {
				c = e.Cmp(lt, t, r)
			}
			r = e.Ite(c, t, r)
		}
		return r
	case "close":
		c := args[0].(ChanV)
		if c.obj == 0 {
			e.panicOutcome(p, e.True, "close of nil channel")
			p.st.G = e.False
			return nil
		}
		o := e.wobj(p.st, c.obj)
		if cl := o.cells[0].(*Term); !cl.IsFalse() {
			if !e.check(p, e.Not(cl), "close of closed channel") {
				return nil
			}
			o = e.wobj(p.st, c.obj)
		}
		o.cells[0] = e.True
		return nil
	case "delete":
		e.mapDelete(p.st, args[0].(MapV), args[1])
		return nil
	case "clear":
		switch a := args[0].(type) {
		case MapV:
			for _, al := range a.alts {
				if al.g.IsTrue() || len(a.alts) == 1 {
					e.wobj(p.st, al.obj).cells = nil
				} else {
					o := e.wobj(p.st, al.obj)
					for i, c := range o.cells {
						en := c.(StructV)
						o.cells[i] = StructV{[]Value{en.f[0], en.f[1], e.And(en.f[2].(*Term), e.Not(al.g))}}
					}
				}
			}
			return nil
		case SliceV:
			n := e.concLen(a.len, "clear")
			et := cc.Args[0].Type().Underlying().(*types.Slice).Elem()
			for k := 0; k < n; k++ {
				e.store(p.st, e.offsetPtr(a.p, e.Const(64, uint64(k))), e.zero(p.st, et))
			}
			return nil
		}
	case "copy":
		dst := args[0].(SliceV)
		var n int
		var src func(k int) Value
		switch s := args[1].(type) {
		case SliceV:
			n = e.concLen(s.len, "copy")
			// snapshot first (overlapping copy semantics = memmove)
			vals := make([]Value, n)
			for k := range vals {
				vals[k] = e.elemAt(p.st, s.p, k)
			}
			src = func(k int) Value { return vals[k] }
		case StrV:
			n = e.concLen(s.len, "copy")
			src = func(k int) Value { return e.loadStrByte(p.st, s, e.Const(64, uint64(k))) }
		default:
			unsup("copy from %T", s)
		}
		dn := e.concLen(dst.len, "copy")
		if dn < n {
			n = dn
		}
		for k := 0; k < n; k++ {
			e.store(p.st, e.offsetPtr(dst.p, e.Const(64, uint64(k))), src(k))
		}
		return e.Const(64, uint64(n))
	case "append":
		s, ok := args[0].(SliceV)
		if !ok {
			unsup("append to %T", args[0])
		}
		var n int
		var src func(k int) Value
		switch t := args[1].(type) {
		case SliceV:
			n = e.concLen(t.len, "append (source)")
			vals := make([]Value, n)
			for k := range vals {
				vals[k] = e.elemAt(p.st, t.p, k)
			}
			src = func(k int) Value { return vals[k] }
		case StrV:
			n = e.concLen(t.len, "append (source string)")
			src = func(k int) Value { return e.loadStrByte(p.st, t, e.Const(64, uint64(k))) }
		default:
			unsup("append arg %T", t)
		}
		l, c := e.concLen(s.len, "append (target len)"), e.concLen(s.cap, "append (target cap)")
		if n == 0 {
			return s
		}
		if l+n <= c && len(s.p.alts) >= 1 {
			for k := 0; k < n; k++ {
				e.store(p.st, e.offsetPtr(s.p, e.Const(64, uint64(l+k))), src(k))
			}
			return SliceV{s.p, e.Const(64, uint64(l+n)), s.cap}
		}
		nc := 2 * c
		if nc < l+n {
			nc = l + n
		}
		et := cc.Args[0].Type().Underlying().(*types.Slice).Elem()
		cells := make([]Value, nc)
		for k := range cells {
			switch {
			case k < l:
				cells[k] = e.elemAt(p.st, s.p, k)
			case k < l+n:
				cells[k] = src(k - l)
			default:
				cells[k] = e.zero(p.st, et)
			}
		}
		id := e.newObj(p.st, cells)
		return SliceV{e.ptrTo(id, 0), e.Const(64, uint64(l+n)), e.Const(64, uint64(nc))}
	case "String": // unsafe.String(ptr, len): aliases
		pt := e.asPtr(args[0])
		return StrV{pt, e.idxOf(args[1], cc.Args[1].Type())}
	case "StringData":
		return args[0].(StrV).p
	case "SliceData":
		return args[0].(SliceV).p
	case "Slice": // unsafe.Slice(ptr, len)
		pt := e.asPtr(args[0])
		n := e.idxOf(args[1], cc.Args[1].Type())
		return SliceV{pt, n, n}
	case "recover":
		return IfaceV{}
	case "print", "println":
		return nil
	case "ssa:wrapnilchk":
		pt := e.asPtr(args[0])
		e.derefCheck(p, pt, "wrapnilchk")
		return pt
	}
	if len(args) > 0 {
		unsup("builtin %s(%T)", name, args[0])
	}
	unsup("builtin %s", name)
	return nil
}

// ----- range iteration -----

func (e *Engine) next(p *Path, x *ssa.Next) []Result {
	it, ok := e.val(p, x.Iter).(IterV)
	if !ok {
		unsup("next on %T", e.val(p, x.Iter))
	}
	o := e.wobj(p.st, it.obj)
	pos := int(o.cells[0].(*Term).val)
	if it.str {
		n := e.concLen(it.s.len, "range over string")
		if pos >= n {
			return e.one(p, TupleV{e.False, e.Const(64, 0), e.Const(32, 0)})
		}
		b := asTerm(e.loadStrByte(p.st, it.s, e.Const(64, uint64(pos))))
		e.asciiOnly(p, b)
		o.cells[0] = e.Const(64, uint64(pos+1))
		return e.one(p, TupleV{e.True, e.Const(64, uint64(pos)), e.Zext(b, 32)})
	}
	mt := x.Iter.(*ssa.Range).X.Type().Underlying().(*types.Map)
	var out []Result
	cur := p
	for {
		o = e.wobj(cur.st, it.obj)
		if pos+1 >= len(o.cells) {
			out = append(out, e.one(cur, TupleV{e.False, e.zero(cur.st, mt.Key()), e.zero(cur.st, mt.Elem())})...)
			return out
		}
		en := o.cells[pos+1].(StructV)
		pos++
		o.cells[0] = e.Const(64, uint64(pos))
		// the entry is visited if it was present at range time and has not been deleted since
		pres := en.f[2].(*Term)
		if len(it.m.alts) != 0 {
			_, still := e.mapLookup(cur.st, it.m, en.f[0], e.zero(cur.st, mt.Elem()))
			pres = e.And(pres, still)
		}
		if pres.IsFalse() || !e.feasible(cur.st.G, pres) {
			continue
		}
		val, _ := e.mapLookup(cur.st, it.m, en.f[0], e.zero(cur.st, mt.Elem()))
		if pres.IsTrue() || !e.feasible(cur.st.G, e.Not(pres)) {
			out = append(out, e.one(cur, TupleV{e.True, en.f[0], val})...)
			return out
		}
		skip := e.clonePath(cur)
		e.nForks++
		cur.st.G = e.And(cur.st.G, pres)
		out = append(out, e.one(cur, TupleV{e.True, en.f[0], val})...)
		skip.st.G = e.And(skip.st.G, e.Not(pres))
		cur = skip
	}
}

func (e *Engine) idxOf(v Value, t types.Type) *Term {
	idx := asTerm(v)
	if idx.w != 64 {
		if _, sg := intWidth(t); sg {
			return e.Sext(idx, 64)
		}
		return e.Zext(idx, 64)
	}
	return idx
}

type argAlt struct {
	p    *Path
	args []Value
}

// iteLeaves collects the constant leaves of a nested ite term; ok=false when some leaf is not a constant
func iteLeaves(t *Term, seen map[uint64]bool, budget *int) bool {
	if *budget <= 0 {
		return false
	}
	*budget--
	switch t.op {
	case OpConst:
		seen[t.val] = true
		return true
	case OpIte:
		return iteLeaves(t.args[1], seen, budget) && iteLeaves(t.args[2], seen, budget)
	}
	return false
}

// concretizeLens forks p over the feasible concrete values of symbolic len/cap fields of slice/string args
func (e *Engine) concretizeLens(p *Path, args []Value) []argAlt {
	alts := []argAlt{{p, args}}
	for i := range args {
		for field := 0; field < 2; field++ {
			var next []argAlt
			for _, a := range alts {
				var t *Term
				switch v := a.args[i].(type) {
				case SliceV:
					if field == 0 {
						t = v.len
					} else {
						t = v.cap
					}
				case StrV:
					if field == 0 {
						t = v.len
					}
				}
				if t == nil || t.IsConst() {
					next = append(next, a)
					continue
				}
				seen := map[uint64]bool{}
				budget := 4096
				var vals []uint64
				if iteLeaves(t, seen, &budget) && len(seen) <= 64 {
					for v := range seen {
						vals = append(vals, v)
					}
				} else {
					// general case: ask the solver for the values the length can take on this path
					var complete bool
					vals, complete = e.sol.Enumerate(e.TB, a.p.st.G, t, 64, e.feasMs)
					if !complete {
						unsup("symbolic slice length with too many (or undecided) values")
					}
				}
				sort.Slice(vals, func(x, y int) bool { return vals[x] < vals[y] })
				for _, v := range vals {
					c := e.Eq(t, e.Const(64, v))
					if !e.feasible(a.p.st.G, c) {
						continue
					}
					q := e.clonePath(a.p)
					e.nForks++
					q.st.G = e.And(q.st.G, c)
					nargs := append([]Value(nil), a.args...)
					switch sv := nargs[i].(type) {
					case SliceV:
						if field == 0 {
							sv.len = e.Const(64, v)
						} else {
							sv.cap = e.Const(64, v)
						}
						nargs[i] = sv
					case StrV:
						sv.len = e.Const(64, v)
						nargs[i] = sv
					}
					next = append(next, argAlt{q, nargs})
				}
			}
			alts = next
		}
	}
	return alts
}
