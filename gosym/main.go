package main

import (
	"encoding/json"
	"flag"
	"fmt"
	"go/types"
	"math/bits"
	"os"
	"path/filepath"
	"regexp"
	"runtime/pprof"
	"sort"
	"strconv"
	"strings"
	"sync"
	"time"

	"golang.org/x/tools/go/packages"
	"golang.org/x/tools/go/ssa"
	"golang.org/x/tools/go/ssa/ssautil"
)

// the tree under verification: always /repo for the registered checks; GOSYM_REPO points the seed-regression
// tooling at a scratch worktree (tools/seed_check_wt.sh) so that several seeded changes can be checked at once
var repoRoot = func() string {
	if r := os.Getenv("GOSYM_REPO"); r != "" {
		return r
	}
	return "/repo"
}()
const modPath = "git.metabarcoding.org/obitools/obitools4/obitools4"

var verifRoot = "/verif"

// ---------- harness specifications (/verif/harness/specs.json) ----------

type TierSpec struct {
	Args      []string `json:"args"`       // one entry per int parameter: "1..5" or "-1,0,2" or a mix
	TimeoutS  int      `json:"timeout_s"`  // per instance (execution + queries)
	QueryMs   int      `json:"query_ms"`   // per final query
	Unwind    int      `json:"unwind"`     // visits per block per activation
	MinReach  []string `json:"min_reach"`  // reach labels that must be witnessed by at least one instance
	MaxInst   int      `json:"max_instances"`
	Logic     string   `json:"logic"` // SMT logic (default QF_BV; QF_UFBV for harnesses with uninterpreted functions)
	CrossFrac int      `json:"cross_every"` // cross-check every n-th instance on the other solvers (0 = tier default)
}

type HarnessSpec struct {
	Prop     string              `json:"prop"`
	Name     string              `json:"name"`
	Pkg      string              `json:"pkg"`   // relative to /repo, e.g. pkg/obifp
	Files    []string            `json:"files"` // relative to /verif
	Func     string              `json:"func"`
	Doc      string              `json:"doc"`
	Tiers    map[string]TierSpec `json:"tiers"`
	Outside  []string            `json:"outside"`
	Assumes  []string            `json:"assumes"`
	Disabled string              `json:"disabled"`
}

func expandArgs(specs []string) [][]int {
	out := [][]int{{}}
	for _, s := range specs {
		var vals []int
		for _, part := range strings.Split(s, ",") {
			part = strings.TrimSpace(part)
			if part == "" {
				continue
			}
			if i := strings.Index(part, ".."); i > 0 {
				lo, _ := strconv.Atoi(part[:i])
				hi, _ := strconv.Atoi(part[i+2:])
				for v := lo; v <= hi; v++ {
					vals = append(vals, v)
				}
			} else {
				v, err := strconv.Atoi(part)
				if err != nil {
					panic("bad arg spec " + s)
				}
				vals = append(vals, v)
			}
		}
		var next [][]int
		for _, pre := range out {
			for _, v := range vals {
				next = append(next, append(append([]int(nil), pre...), v))
			}
		}
		out = next
	}
	return out
}

func loadSpecs() []HarnessSpec {
	specPath := filepath.Join(verifRoot, "harness", "specs.json")
	if p := os.Getenv("GOSYM_SPECS"); p != "" {
		specPath = p // experiments only: the registered checks always read harness/specs.json
	}
	data, err := os.ReadFile(specPath)
	if err != nil {
		fatalf("cannot read specs: %v", err)
	}
	var specs []HarnessSpec
	if err := json.Unmarshal(data, &specs); err != nil {
		fatalf("specs.json: %v", err)
	}
	return specs
}

func fatalf(format string, a ...interface{}) {
	fmt.Fprintf(os.Stderr, "gosym: "+format+"\n", a...)
	os.Exit(2)
}

// ---------- loading the current tree with the harness overlays ----------

type Loaded struct {
	prog  *ssa.Program
	pkgs  map[string]*ssa.Package // by relative dir
	stubs map[string]map[string]string
	tLoad time.Duration
	ov    map[string]string // overlay path -> real file (for native replay)
}

var stubRe = regexp.MustCompile(`(?m)^//verif:stub\s+(\S.*?)\s*=\s*(\w+)\s*$`)
var pkgRe = regexp.MustCompile(`(?m)^package\s+(\w+)`)

func overlayName(f string) string {
	b := strings.TrimSuffix(filepath.Base(f), ".go")
	d := filepath.Base(filepath.Dir(f))
	return "zz_verif_" + strings.ToLower(d) + "_" + b + ".go"
}

func loadProgram(specs []HarnessSpec) *Loaded {
	t0 := time.Now()
	overlay := map[string][]byte{}
	ld := &Loaded{pkgs: map[string]*ssa.Package{}, stubs: map[string]map[string]string{}, ov: map[string]string{}}
	tmpl, err := os.ReadFile(filepath.Join(verifRoot, "harness", "rt", "vrt.go.tmpl"))
	if err != nil {
		fatalf("%v", err)
	}
	var patterns []string
	seenPkg := map[string]bool{}
	for _, h := range specs {
		dir := filepath.Join(repoRoot, h.Pkg)
		for _, f := range h.Files {
			src, err := os.ReadFile(filepath.Join(verifRoot, f))
			if err != nil {
				fatalf("%v", err)
			}
			overlay[filepath.Join(dir, overlayName(f))] = src
			ld.ov[filepath.Join(dir, overlayName(f))] = filepath.Join(verifRoot, f)
			// stubs belong to the harness that lists the file, not to the package: two harnesses of one
			// package may replace different functions (one of them may even be the subject of the other)
			if ld.stubs[h.Name] == nil {
				ld.stubs[h.Name] = map[string]string{}
			}
			for _, m := range stubRe.FindAllStringSubmatch(string(src), -1) {
				ld.stubs[h.Name][m[1]] = m[2]
			}
			if !seenPkg[h.Pkg] {
				m := pkgRe.FindStringSubmatch(string(src))
				if m == nil {
					fatalf("no package clause in %s", f)
				}
				overlay[filepath.Join(dir, "zz_verif_rt.go")] = []byte(strings.Replace(string(tmpl), "PKGNAME", m[1], 1))
			}
		}
		if !seenPkg[h.Pkg] {
			seenPkg[h.Pkg] = true
			patterns = append(patterns, "./"+h.Pkg)
		}
	}
	cfg := &packages.Config{Mode: packages.LoadAllSyntax, Dir: repoRoot,
		Env:     append(os.Environ(), "GOWORK=off", "GOFLAGS=-mod=mod", "GOPROXY=off", "GOSUMDB=off", "GOTOOLCHAIN=local"),
		Overlay: overlay}
	pkgs, err := packages.Load(cfg, patterns...)
	if err != nil {
		fatalf("load: %v", err)
	}
	nerr := 0
	packages.Visit(pkgs, nil, func(p *packages.Package) {
		for _, e := range p.Errors {
			if strings.HasPrefix(p.PkgPath, modPath) {
				fmt.Fprintln(os.Stderr, "LOAD ERROR", e)
				nerr++
			}
		}
	})
	if nerr > 0 {
		fatalf("the tree (with harness overlays) does not type-check: %d errors", nerr)
	}
	prog, spkgs := ssautil.AllPackages(pkgs, ssa.InstantiateGenerics)
	prog.Build()
	for i, p := range pkgs {
		rel := strings.TrimPrefix(strings.TrimPrefix(p.PkgPath, modPath), "/")
		ld.pkgs[rel] = spkgs[i]
	}
	ld.prog = prog
	ld.tLoad = time.Since(t0)
	return ld
}

// resolve a stub target name to an ssa function name as printed by fn.String()
func (ld *Loaded) resolveStubs(harness string, hp *ssa.Package) (map[string]*ssa.Function, error) {
	out := map[string]*ssa.Function{}
	for target, hname := range ld.stubs[harness] {
		hf := hp.Func(hname)
		if hf == nil {
			return nil, fmt.Errorf("stub function %s not found", hname)
		}
		t := strings.ReplaceAll(target, "MOD/", modPath+"/")
		out[t] = hf
	}
	return out, nil
}

// ---------- one instance ----------

type QueryRes struct {
	Kind    string   `json:"kind"` // assert | panic | fatal | reach | unwind
	Label   string   `json:"label"`
	Verdict string   `json:"verdict"`
	Ms      int64    `json:"ms"`
	Model   []uint64 `json:"model,omitempty"`
	Cross   string   `json:"cross,omitempty"`
	Refinements int  `json:"uf_refinements,omitempty"`
}

type InstanceRes struct {
	Harness   string     `json:"harness"`
	Args      []int      `json:"args"`
	Status    string     `json:"status"` // ok | skipped | unsupported | timeout | error
	Msg       string     `json:"msg,omitempty"`
	Queries   []QueryRes `json:"queries,omitempty"`
	ExecMs    int64      `json:"exec_ms"`
	SolverMs  int64      `json:"solver_ms"`
	Terms     int        `json:"terms"`
	Visits    int        `json:"visits"`
	Merges    int        `json:"merges"`
	Forks     int        `json:"forks"`
	FeasCalls int        `json:"feas_calls"`
	FeasHits  int        `json:"feas_cache_hits"`
	NInputs   int        `json:"n_inputs"`
	Funcs     []string   `json:"-"`
	Models    []string   `json:"-"`
	InitNotes []string   `json:"-"`
	NonTriv   int        `json:"nontrivial_queries"`
	Observes  []string   `json:"observes,omitempty"`
}

type timeoutErr struct{}

func newEngine(ld *Loaded, hp *ssa.Package, stubs map[string]*ssa.Function, ts TierSpec, solverKind string) *Engine {
	tb := NewTB()
	e := &Engine{TB: tb, prog: ld.prog, base: map[int]*Obj{}, globals: map[*ssa.Global]int{}, strConst: map[string]StrV{},
		feas: map[int]bool{}, sens: map[*ssa.Function]map[ssa.Value]bool{}, order: map[*ssa.Function][]int{},
		comps: map[*ssa.Function][][2]int{}, initDone: map[*ssa.Package]bool{}, funcsRun: map[string]int{}, harnessPk: hp,
		stubs: stubs, modelsUsed: map[string]int{}, scCache: map[*ssa.BasicBlock]bool{}, varAlpha: map[int][]uint64{}}
	e.unwindCap = ts.Unwind
	if e.unwindCap == 0 {
		e.unwindCap = 100000
	}
	e.feasMs = 10000
	e.initState = &State{G: tb.True, heap: e.base, stamp: -1}
	if solverKind != "" {
		e.sol = NewSolver(solverKind, tb, 600000, ts.Logic)
		e.logic = ts.Logic
	}
	return e
}

func runInstance(ld *Loaded, h HarnessSpec, ts TierSpec, args []int, opt *Options, concrete []uint64) (res InstanceRes, eng *Engine) {
	res = InstanceRes{Harness: h.Name, Args: args}
	hp := ld.pkgs[h.Pkg]
	if hp == nil {
		res.Status, res.Msg = "error", "package not loaded: "+h.Pkg
		return
	}
	fn := hp.Func(h.Func)
	if fn == nil {
		res.Status, res.Msg = "unsupported", "harness does not resolve: "+h.Func
		return
	}
	stubs, err := ld.resolveStubs(h.Name, hp)
	if err != nil {
		res.Status, res.Msg = "unsupported", err.Error()
		return
	}
	e := newEngine(ld, hp, stubs, ts, opt.Solver)
	eng = e
	e.trace = opt.Trace
	if opt.Sites {
		e.feasSites = map[string]int{}
		defer func() {
			for k, v := range e.feasSites {
				fmt.Printf("  feas-site %s: %d\n", k, v)
			}
		}()
	}
	if concrete != nil {
		e.isConc = true
		e.concrete = concrete
	}
	if pin := os.Getenv("GOSYM_PIN"); pin != "" {
		for _, a := range strings.Split(pin, ",") {
			n, _ := strconv.ParseUint(strings.TrimSpace(a), 0, 64)
			e.pin = append(e.pin, n)
		}
	}
	if opt.SmtLog != "" {
		f, _ := os.Create(opt.SmtLog)
		e.sol.log = f
	}
	defer e.sol.Close()
	tmo := ts.TimeoutS
	if tmo == 0 {
		tmo = 300
	}
	e.deadline = time.Now().Add(time.Duration(tmo) * time.Second).UnixNano()
	var vargs []Value
	for _, a := range args {
		vargs = append(vargs, e.Const(64, uint64(int64(a))))
	}
	st := &State{G: e.True, heap: map[int]*Obj{}, stamp: e.newStamp()}
	t0 := time.Now()
	var deadlock *Outcome
	func() {
		defer func() {
			if r := recover(); r != nil {
				switch u := r.(type) {
				case unsupported:
					res.Status, res.Msg = "unsupported", u.msg
				case solverError:
					res.Status, res.Msg = "error", u.msg
				case blockedErr:
					// nothing can make progress under u.g: a candidate non-termination.  It is decided like an
					// unwinding assertion (sat model -> native replay must hang); the exploration stops here, so
					// the instance only counts when that query is sat
					deadlock = &Outcome{g: u.g, label: "deadlock-no-goroutine-can-make-progress"}
					res.Msg = "deadlock under the run-to-completion goroutine model: " + u.why
				case timeoutErr:
					res.Status, res.Msg = "timeout", fmt.Sprintf("execution exceeded %ds", tmo)
				default:
					panic(r)
				}
			}
		}()
		e.callFunction(fn, vargs, nil, st, 0)
	}()
	res.ExecMs = time.Since(t0).Milliseconds()
	res.Terms, res.Visits, res.Merges, res.Forks = len(e.list), e.nVisits, e.nMerges, e.nForks
	res.FeasCalls, res.FeasHits = e.sol.nCheck, e.nFeasHit
	res.NInputs = len(e.vars)
	for f := range e.funcsRun {
		res.Funcs = append(res.Funcs, f)
	}
	for m := range e.modelsUsed {
		res.Models = append(res.Models, m)
	}
	res.InitNotes = e.initNotes
	if res.Status != "" {
		return
	}
	if e.skipped && len(e.asserts) == 0 && len(e.reaches) == 0 {
		res.Status = "skipped"
		return
	}
	res.Status = "ok"
	if e.isConc {
		for _, o := range e.observes {
			if o.g.IsTrue() && o.v.IsConst() {
				res.Observes = append(res.Observes, fmt.Sprintf("%s %d", o.label, int64(o.v.val)))
			} else if !o.g.IsFalse() {
				res.Observes = append(res.Observes, fmt.Sprintf("%s ?", o.label))
			}
		}
	}
	// ----- discharge -----
	qms := ts.QueryMs
	if qms == 0 {
		qms = 120000
	}
	group := func(kind string, os []Outcome) (map[string]*Term, []string) {
		by := map[string]*Term{}
		var labels []string
		for _, a := range os {
			if old, ok := by[a.label]; ok {
				by[a.label] = e.Or(old, a.g)
			} else {
				by[a.label] = a.g
				labels = append(labels, a.label)
			}
		}
		sort.Strings(labels)
		return by, labels
	}
	ts0 := time.Now()
	ask := func(kind, label string, g *Term) {
		q := QueryRes{Kind: kind, Label: label}
		t1 := time.Now()
		if g.IsFalse() {
			q.Verdict = "unsat"
		} else if g.IsTrue() {
			q.Verdict = "sat"
			q.Model = make([]uint64, len(e.vars))
		} else {
			res.NonTriv++
			func() {
				defer func() {
					if r := recover(); r != nil {
						if se, ok := r.(solverError); ok {
							q.Verdict = "error: " + se.msg
							return
						}
						panic(r)
					}
				}()
				vars := make([]*Term, 0, len(e.vars))
				for _, v := range e.vars {
					if v != nil {
						vars = append(vars, v)
					}
				}
				ufs := ufTermsOf(g)
				for iter := 0; ; iter++ {
					q.Verdict = e.sol.Check(qms, g)
					if q.Verdict != "sat" {
						e.sol.Pop()
						break
					}
					m := e.sol.Values(vars)
					e.sol.Pop()
					q.Model = make([]uint64, len(e.vars))
					for i, v := range e.vars {
						if v != nil {
							q.Model[i] = m[v.name]
							if al, ok := e.varAlpha[i]; ok && int(q.Model[i]) < len(al) {
								q.Model[i] = al[q.Model[i]] // selector -> letter
							}
						}
					}
					if len(ufs) == 0 {
						break
					}
					// uninterpreted functions: is the model also a model under their real meaning?
					mm := NewModel(m)
					if mm.Eval(g) != 0 {
						break
					}
					if iter >= 5 {
						q.Verdict = "unknown (uninterpreted-function refinement did not converge)"
						q.Model = nil
						break
					}
					// refine: pin every application to its real value at the arguments it takes under this input
					for _, t := range ufs {
						var lemma *Term
						if (t.name == "mulhi64" || t.name == "mullo64") && len(t.args) == 2 {
							// generalise from the point to a line: with one operand fixed to its (sparse) value the
							// product is exact shifts and additions in the other operand
							a0, b0 := mm.Eval(t.args[0]), mm.Eval(t.args[1])
							ca, cb := bits.OnesCount64(a0), bits.OnesCount64(b0)
							fixed, free, c := t.args[0], t.args[1], a0
							if cb < ca {
								fixed, free, c = t.args[1], t.args[0], b0
							}
							if bits.OnesCount64(c) <= 20 {
								hi, lo := e.mulByConst(c, free)
								val := hi
								if t.name == "mullo64" {
									val = lo
								}
								lemma = e.Implies(e.Eq(fixed, e.Const(64, c)), e.Eq(t, val))
							}
						}
						if lemma == nil {
							cond := e.True
							for _, a := range t.args {
								cond = e.And(cond, e.Eq(a, e.Const(a.w, mm.Eval(a))))
							}
							lemma = e.Implies(cond, e.Eq(t, e.Const(t.w, mm.Eval(t))))
						}
						e.sol.define(lemma)
						e.sol.send("(assert " + lemma.ref() + ")")
						e.ufLemmas = append(e.ufLemmas, lemma)
					}
					q.Refinements++
				}
			}()
			if opt.Cross && q.Verdict == "unsat" && kind != "reach" {
				q.Cross = crossCheck(e, g, qms, q.Verdict, opt.CrossCvc5)
			}
		}
		q.Ms = time.Since(t1).Milliseconds()
		res.Queries = append(res.Queries, q)
	}
	if e.isConc {
		// concrete run: guards are constants
		for _, a := range e.asserts {
			v := "unsat"
			if !a.g.IsFalse() {
				v = "sat"
			}
			res.Queries = append(res.Queries, QueryRes{Kind: "assert", Label: a.label, Verdict: v})
		}
		for _, a := range e.panics {
			if !a.g.IsFalse() {
				res.Queries = append(res.Queries, QueryRes{Kind: "panic", Label: a.label, Verdict: "sat"})
			}
		}
		for _, a := range e.fatals {
			if !a.g.IsFalse() {
				res.Queries = append(res.Queries, QueryRes{Kind: "fatal", Label: a.label, Verdict: "sat"})
			}
		}
		for _, a := range e.reaches {
			if !a.g.IsFalse() {
				res.Queries = append(res.Queries, QueryRes{Kind: "reach", Label: a.label, Verdict: "sat"})
			}
		}
		if deadlock != nil {
			res.Queries = append(res.Queries, QueryRes{Kind: "unwind", Label: deadlock.label, Verdict: "sat"})
		}
		return
	}
	by, labels := group("assert", e.asserts)
	for _, l := range labels {
		ask("assert", l, by[l])
	}
	by, labels = group("panic", e.panics)
	for _, l := range labels {
		ask("panic", l, by[l])
	}
	by, labels = group("fatal", e.fatals)
	for _, l := range labels {
		ask("fatal", l, by[l])
	}
	by, labels = group("reach", e.reaches)
	for _, l := range labels {
		ask("reach", l, by[l])
	}
	by, labels = group("unwind", e.unwinds)
	for _, l := range labels {
		ask("unwind", l, by[l])
	}
	if deadlock != nil {
		ask("unwind", deadlock.label, deadlock.g)
		if v := res.Queries[len(res.Queries)-1].Verdict; v != "sat" {
			res.Status = "unsupported"
			res.Msg += " (blocked path: " + v + "; exploration stopped there)"
		}
	}
	res.SolverMs = (e.sol.tCheck).Milliseconds()
	_ = ts0
	return
}

// crossCheck re-decides g on the other installed solvers; returns "" when they agree
func crossCheck(e *Engine, g *Term, qms int, want string, withCvc5 bool) string {
	var notes []string
	for _, kind := range []string{"z3-new", "cvc5"} {
		if kind == e.sol.kind || (kind == "cvc5" && !withCvc5) {
			continue
		}
		func() {
			defer func() {
				if r := recover(); r != nil {
					notes = append(notes, kind+":error")
				}
			}()
			// a second opinion is worth two minutes at most; beyond that the note says "unknown"
			if qms > 120000 {
				qms = 120000
			}
			s := NewSolver(kind, e.TB, qms, e.logic)
			defer s.Close()
			for _, l := range e.ufLemmas { // refinement lemmas (true facts about the real functions)
				s.define(l)
				s.send("(assert " + l.ref() + ")")
			}
			r := s.Check(qms, g)
			s.Pop()
			if r == "unknown" {
				notes = append(notes, kind+":unknown")
			} else if r != want {
				notes = append(notes, kind+":DISAGREES("+r+")")
			} else {
				notes = append(notes, kind+":agrees")
			}
		}()
	}
	return strings.Join(notes, " ")
}

type Options struct {
	Solver string
	Trace  bool
	SmtLog string
	Cross  bool
	CrossCvc5 bool
	Sites  bool
	J      int
}

// ---------- command line ----------

func main() {
	if len(os.Args) < 2 {
		fatalf("usage: gosym check|run|replay|list ...")
	}
	if v := os.Getenv("VERIF_ROOT"); v != "" {
		verifRoot = v
	}
	switch os.Args[1] {
	case "check":
		cmdCheck(os.Args[2:])
	case "run":
		cmdRun(os.Args[2:])
	case "replay":
		cmdReplay(os.Args[2:])
	case "list":
		for _, h := range loadSpecs() {
			fmt.Printf("%s %-24s %s %s\n", h.Prop, h.Name, h.Pkg, h.Func)
		}
	default:
		fatalf("unknown command %s", os.Args[1])
	}
}

// run: one harness instance, verbose (debugging aid)
func cmdRun(argv []string) {
	fs := flag.NewFlagSet("run", flag.ExitOnError)
	name := fs.String("h", "", "harness name")
	argStr := fs.String("args", "", "comma separated int args")
	tier := fs.String("tier", "quick", "tier (for budgets)")
	trace := fs.Bool("trace", false, "trace instructions")
	smtlog := fs.String("smtlog", "", "log SMT to file")
	solver := fs.String("solver", "z3", "solver")
	cross := fs.Bool("cross", false, "cross-check")
	conc := fs.String("concrete", "", "comma separated input vector: run concretely")
	replay := fs.Bool("replay", false, "replay sat models natively")
	dump := fs.String("dump", "", "dump the SSA of this function of the harness package and exit")
	prof := fs.String("cpuprofile", "", "write a CPU profile")
	fs.Parse(argv)
	if *prof != "" {
		f, _ := os.Create(*prof)
		pprof.StartCPUProfile(f)
		defer pprof.StopCPUProfile()
	}
	var hs []HarnessSpec
	for _, h := range loadSpecs() {
		if h.Name == *name {
			hs = append(hs, h)
		}
	}
	if len(hs) == 0 {
		fatalf("no harness %s", *name)
	}
	ld := loadProgram(hs)
	if *dump != "" {
		hp := ld.pkgs[hs[0].Pkg]
		if f := hp.Func(*dump); f != nil {
			f.WriteTo(os.Stdout)
		} else {
			for _, m := range hp.Members {
				if t, ok := m.(*ssa.Type); ok {
					for _, mm := range []*ssa.Function{} {
						_ = mm
					}
					ms := ld.prog.MethodSets.MethodSet(t.Type())
					for i := 0; i < ms.Len(); i++ {
						if f := ld.prog.MethodValue(ms.At(i)); f != nil && f.Name() == *dump {
							f.WriteTo(os.Stdout)
						}
					}
					ms = ld.prog.MethodSets.MethodSet(types.NewPointer(t.Type()))
					for i := 0; i < ms.Len(); i++ {
						if f := ld.prog.MethodValue(ms.At(i)); f != nil && f.Name() == *dump {
							f.WriteTo(os.Stdout)
						}
					}
				}
			}
		}
		return
	}
	var args []int
	if *argStr != "" {
		for _, a := range strings.Split(*argStr, ",") {
			n, _ := strconv.Atoi(strings.TrimSpace(a))
			args = append(args, n)
		}
	}
	var cv []uint64
	if *conc != "" {
		cv = []uint64{}
		for _, a := range strings.Split(*conc, ",") {
			if strings.TrimSpace(a) == "" {
				continue
			}
			n, _ := strconv.ParseUint(strings.TrimSpace(a), 0, 64)
			cv = append(cv, n)
		}
	}
	opt := &Options{Solver: *solver, Trace: *trace, SmtLog: *smtlog, Cross: *cross, CrossCvc5: *cross, Sites: os.Getenv("GOSYM_SITES") != ""}
	res, e := runInstance(ld, hs[0], hs[0].Tiers[*tier], args, opt, cv)
	fmt.Printf("load %.1fs | %s %v: %s %s\n", ld.tLoad.Seconds(), res.Harness, res.Args, res.Status, res.Msg)
	fmt.Printf("exec %dms solver %dms | terms %d visits %d merges %d forks %d feas-calls %d cache-hits %d inputs %d\n",
		res.ExecMs, res.SolverMs, res.Terms, res.Visits, res.Merges, res.Forks, res.FeasCalls, res.FeasHits, res.NInputs)
	for _, q := range res.Queries {
		extra := ""
		if q.Model != nil && q.Verdict == "sat" {
			extra = " model: " + fmtModel(e, q.Model)
		}
		fmt.Printf("  %-7s %-44s %-7s %5dms %s%s\n", q.Kind, q.Label, q.Verdict, q.Ms, q.Cross, extra)
		if *replay && q.Verdict == "sat" && (q.Kind == "assert" || q.Kind == "panic" || q.Kind == "fatal") {
			rr := nativeReplay(ld, hs[0], args, q.Model, "")
			fmt.Printf("      native replay: %s\n", rr.Summary)
		}
	}
	for _, o := range res.Observes {
		fmt.Println("  OBS", o)
	}
	sort.Strings(res.Funcs)
	n := 0
	for _, f := range res.Funcs {
		if strings.Contains(f, modPath) && !strings.Contains(f, "Verif") {
			n++
		}
	}
	fmt.Printf("functions executed: %d (%d of the repository)\n", len(res.Funcs), n)
	for _, nte := range res.InitNotes {
		fmt.Println("  init note:", nte)
	}
}

func fmtModel(e *Engine, m []uint64) string {
	var sb strings.Builder
	inBytes := false
	for i, v := range m {
		kind := ""
		if e != nil && i < len(e.varKinds) {
			kind = e.varKinds[i]
		}
		if kind == "byte" {
			if !inBytes {
				sb.WriteString(" \"")
				inBytes = true
			}
			q := strconv.QuoteToASCII(string(rune(byte(v))))
			sb.WriteString(q[1 : len(q)-1])
			continue
		}
		if inBytes {
			sb.WriteString("\"")
			inBytes = false
		}
		if int64(v) < 0 && int64(v) > -1000000 {
			fmt.Fprintf(&sb, " %d", int64(v))
		} else if v < 1000000 {
			fmt.Fprintf(&sb, " %d", v)
		} else {
			fmt.Fprintf(&sb, " %#x", v)
		}
	}
	if inBytes {
		sb.WriteString("\"")
	}
	return strings.TrimSpace(sb.String())
}

var _ = sync.Mutex{}

// ufTermsOf lists the uninterpreted-function applications in the cone of g (innermost first)
func ufTermsOf(g *Term) []*Term {
	seen := map[int]bool{}
	var out []*Term
	var walk func(t *Term)
	walk = func(t *Term) {
		if seen[t.id] {
			return
		}
		seen[t.id] = true
		for _, a := range t.args {
			walk(a)
		}
		if t.op == OpUF {
			out = append(out, t)
		}
	}
	walk(g)
	return out
}

// mulByConst: the two halves of c*b for a constant c, as shifts and 128-bit additions over 64-bit terms
// (dense constants go through their two's complement: c*b = 2^64*b - (-c)*b)
func (e *Engine) mulByConst(c uint64, b *Term) (hi, lo *Term) {
	if bits.OnesCount64(c) > 34 {
		h2, l2 := e.mulByConst(-c, b)
		// (b, 0) - (h2, l2)
		lo = e.Un(OpNeg, l2)
		borrow := e.Ite(e.Eq(l2, e.Const(64, 0)), e.Const(64, 0), e.Const(64, 1))
		hi = e.Bin(OpSub, e.Bin(OpSub, b, h2), borrow)
		return
	}
	hi, lo = e.Const(64, 0), e.Const(64, 0)
	for i := 0; i < 64; i++ {
		if c>>uint(i)&1 == 0 {
			continue
		}
		pl := e.Bin(OpShl, b, e.Const(64, uint64(i)))
		ph := e.Const(64, 0)
		if i > 0 {
			ph = e.Bin(OpLshr, b, e.Const(64, uint64(64-i)))
		}
		nl := e.Bin(OpAdd, lo, pl)
		carry := e.Ite(e.Cmp(OpUlt, nl, lo), e.Const(64, 1), e.Const(64, 0))
		hi = e.Bin(OpAdd, e.Bin(OpAdd, hi, ph), carry)
		lo = nl
	}
	return
}

// mulFull: exact 64x64->128 product of two symbolic operands from 32-bit halves (as math/bits.Mul64)
func (e *Engine) mulFull(x, y *Term) (hi, lo *Term) {
	m32 := e.Const(64, 0xFFFFFFFF)
	s32 := e.Const(64, 32)
	x0, x1 := e.Bin(OpBvAnd, x, m32), e.Bin(OpLshr, x, s32)
	y0, y1 := e.Bin(OpBvAnd, y, m32), e.Bin(OpLshr, y, s32)
	w0 := e.Bin(OpMul, x0, y0)
	t := e.Bin(OpAdd, e.Bin(OpMul, x1, y0), e.Bin(OpLshr, w0, s32))
	w1 := e.Bin(OpBvAnd, t, m32)
	w2 := e.Bin(OpLshr, t, s32)
	w1 = e.Bin(OpAdd, w1, e.Bin(OpMul, x0, y1))
	hi = e.Bin(OpAdd, e.Bin(OpAdd, e.Bin(OpMul, x1, y1), w2), e.Bin(OpLshr, w1, s32))
	lo = e.Bin(OpMul, x, y)
	return
}
