package main

import (
	"go/types"
)

// ----- maps: association list object; cell = StructV{key, val, present(*Term)} -----
// Iteration order = insertion order; harnesses that need every order permute their inputs.

func (e *Engine) keyEq(st *State, a, b Value) *Term {
	switch x := a.(type) {
	case *Term:
		y, ok := b.(*Term)
		if !ok {
			return e.False
		}
		return e.Eq(x, y)
	case StrV:
		y, ok := b.(StrV)
		if !ok {
			return e.False
		}
		return e.strEq(&Path{st: st}, x, y)
	case StructV:
		y := b.(StructV)
		eq := e.True
		for i := range x.f {
			eq = e.And(eq, e.keyEq(st, x.f[i], y.f[i]))
		}
		return eq
	case Ptr:
		return e.ptrEq(x, b.(Ptr))
	case FloatV:
		y, ok := b.(FloatV)
		return e.BoolC(ok && x == y)
	case IfaceV:
		y := b.(IfaceV)
		eq := e.And(e.Not(e.ifaceNotNil(x)), e.Not(e.ifaceNotNil(y)))
		for _, xa := range x.alts {
			for _, ya := range y.alts {
				if xa.typ == nil || ya.typ == nil || !types.Identical(xa.typ, ya.typ) {
					continue
				}
				eq = e.Or(eq, e.And(e.And(xa.g, ya.g), e.keyEq(st, xa.val, ya.val)))
			}
		}
		return eq
	case ArrRef:
		y := b.(ArrRef)
		xo, yo := e.obj(st, x.obj), e.obj(st, y.obj)
		eq := e.True
		for i := range xo.cells {
			eq = e.And(eq, e.keyEq(st, xo.cells[i], yo.cells[i]))
		}
		return eq
	}
	unsup("map key of type %T", a)
	return nil
}

func (e *Engine) mapLookup(st *State, m MapV, k Value, zero Value) (Value, *Term) {
	if m.obj == 0 {
		return zero, e.False
	}
	o := e.obj(st, m.obj)
	found := e.False
	val := zero
	for _, c := range o.cells {
		en := c.(StructV)
		hit := e.And(en.f[2].(*Term), e.keyEq(st, en.f[0], k))
		if hit.IsFalse() {
			continue
		}
		val = e.mergeValue(hit, en.f[1], val)
		found = e.Or(found, hit)
	}
	return val, found
}

func (e *Engine) mapLen(st *State, m MapV) *Term {
	n := e.Const(64, 0)
	if m.obj == 0 {
		return n
	}
	for _, c := range e.obj(st, m.obj).cells {
		pr := c.(StructV).f[2].(*Term)
		n = e.Bin(OpAdd, n, e.Ite(pr, e.Const(64, 1), e.Const(64, 0)))
	}
	return n
}

func (e *Engine) mapUpdate(st *State, m MapV, k, v Value) {
	o := e.wobj(st, m.obj)
	if hasArr(k) {
		k = e.copyVal(st, k)
	}
	if hasArr(v) {
		v = e.copyVal(st, v)
	}
	found := e.False
	for i, c := range o.cells {
		en := c.(StructV)
		hit := e.And(en.f[2].(*Term), e.keyEq(st, en.f[0], k))
		if hit.IsFalse() {
			continue
		}
		o.cells[i] = StructV{[]Value{en.f[0], e.mergeValue(hit, v, en.f[1]), en.f[2]}}
		found = e.Or(found, hit)
	}
	if !found.IsTrue() {
		o.cells = append(o.cells, StructV{[]Value{k, v, e.Not(found)}})
	}
}

func (e *Engine) mapDelete(st *State, m MapV, k Value) {
	if m.obj == 0 {
		return
	}
	o := e.wobj(st, m.obj)
	for i, c := range o.cells {
		en := c.(StructV)
		hit := e.keyEq(st, en.f[0], k)
		o.cells[i] = StructV{[]Value{en.f[0], en.f[1], e.And(en.f[2].(*Term), e.Not(hit))}}
	}
}

// ----- channels: object cells[0] = closed flag, cells[1:] = queue (unbounded FIFO) -----
// goroutines are pending tasks run to completion when somebody has to wait (schedules are not explored)

func (e *Engine) chanRecv(p *Path, c ChanV, elem types.Type, act *Activation) (Value, *Term) {
	for tries := 0; ; tries++ {
		o := e.obj(p.st, c.obj)
		if len(o.cells) > 1 {
			w := e.wobj(p.st, c.obj)
			v := w.cells[1]
			w.cells = append([]Value{w.cells[0]}, w.cells[2:]...)
			return v, e.True
		}
		cl := o.cells[0].(*Term)
		if cl.IsTrue() {
			return e.zero(p.st, elem), e.False
		}
		if !cl.IsFalse() {
			unsup("receive on channel with symbolic closed flag")
		}
		// would block: run one pending task to completion
		if len(p.st.tasks) == 0 || tries > 1000 {
			unsup("receive would block forever (no pending task can deliver)")
		}
		if !e.runOneTask(p, act.depth) {
			return nil, e.False
		}
	}
}

// runOneTask runs the oldest pending task to completion on p's state. If it ends in several states they
// must be mergeable (they are: same activation rules); false = every path of the task ended abnormally.
func (e *Engine) runOneTask(p *Path, depth int) bool {
	t := p.st.tasks[0]
	p.st.tasks = append([]Task(nil), p.st.tasks[1:]...)
	rs := e.callFn(p, t.fn, t.args, t.env, depth, nil)
	if len(rs) == 0 {
		p.st.G = e.False
		return false
	}
	if len(rs) > 1 {
		sts := make([]*State, len(rs))
		for i, r := range rs {
			sts[i] = r.st
		}
		p.st = e.mergeStates(sts)
		return true
	}
	p.st = rs[0].st
	return true
}

func (e *Engine) runPending(p *Path, depth int) {
	for n := 0; len(p.st.tasks) > 0; n++ {
		if n > 10000 {
			unsup("pending tasks do not terminate")
		}
		if !e.runOneTask(p, depth) {
			return
		}
	}
}
