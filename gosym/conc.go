package main

import (
	"go/types"
)

// ----- maps: association list object; cell = StructV{key, val, present(*Term)} -----
// Iteration order = insertion order; harnesses that need every order permute their inputs.

func (e *Engine) keyEq(st *State, a, b Value) *Term {
	switch x := a.(type) {
	case *Term:
		y, ok := b.(*Term)
		if !ok {
			return e.False
		}
		return e.Eq(x, y)
	case StrV:
		y, ok := b.(StrV)
		if !ok {
			return e.False
		}
		return e.strEq(&Path{st: st}, x, y)
	case StructV:
		y := b.(StructV)
		eq := e.True
		for i := range x.f {
			eq = e.And(eq, e.keyEq(st, x.f[i], y.f[i]))
		}
		return eq
	case Ptr:
		return e.ptrEq(x, b.(Ptr))
	case FloatV:
		y, ok := b.(FloatV)
		return e.BoolC(ok && x == y)
	case IfaceV:
		y := b.(IfaceV)
		eq := e.And(e.Not(e.ifaceNotNil(x)), e.Not(e.ifaceNotNil(y)))
		for _, xa := range x.alts {
			for _, ya := range y.alts {
				if xa.typ == nil || ya.typ == nil || !types.Identical(xa.typ, ya.typ) {
					continue
				}
				eq = e.Or(eq, e.And(e.And(xa.g, ya.g), e.keyEq(st, xa.val, ya.val)))
			}
		}
		return eq
	case ArrRef:
		y := b.(ArrRef)
		xo, yo := e.obj(st, x.obj), e.obj(st, y.obj)
		eq := e.True
		for i := range xo.cells {
			eq = e.And(eq, e.keyEq(st, xo.cells[i], yo.cells[i]))
		}
		return eq
	}
	unsup("map key of type %T", a)
	return nil
}

func (e *Engine) mapLookup(st *State, m MapV, k Value, zero Value) (Value, *Term) {
	found := e.False
	val := zero
	for _, al := range m.alts {
		o := e.obj(st, al.obj)
		for _, c := range o.cells {
			en := c.(StructV)
			hit := e.And(al.g, e.And(en.f[2].(*Term), e.keyEq(st, en.f[0], k)))
			if hit.IsFalse() {
				continue
			}
			val = e.mergeValue(hit, en.f[1], val)
			found = e.Or(found, hit)
		}
	}
	return val, found
}

func (e *Engine) mapLen(st *State, m MapV) *Term {
	n := e.Const(64, 0)
	for _, al := range m.alts {
		for _, c := range e.obj(st, al.obj).cells {
			pr := e.And(al.g, c.(StructV).f[2].(*Term))
			n = e.Bin(OpAdd, n, e.Ite(pr, e.Const(64, 1), e.Const(64, 0)))
		}
	}
	return n
}

func (e *Engine) mapUpdate(st *State, m MapV, k, v Value) {
	if hasArr(k) {
		k = e.copyVal(st, k)
	}
	if hasArr(v) {
		v = e.copyVal(st, v)
	}
	single := len(m.alts) == 1
	for _, al := range m.alts {
		g := al.g
		if single {
			g = e.True
		}
		o := e.wobj(st, al.obj)
		found := e.False
		for i, c := range o.cells {
			en := c.(StructV)
			hit0 := e.And(en.f[2].(*Term), e.keyEq(st, en.f[0], k))
			if hit0.IsFalse() {
				continue
			}
			o.cells[i] = StructV{[]Value{en.f[0], e.mergeValue(e.And(g, hit0), v, en.f[1]), en.f[2]}}
			found = e.Or(found, hit0)
		}
		if !found.IsTrue() {
			pres := e.And(g, e.Not(found))
			if !pres.IsFalse() {
				o.cells = append(o.cells, StructV{[]Value{k, v, pres}})
			}
		}
	}
}

func (e *Engine) mapDelete(st *State, m MapV, k Value) {
	single := len(m.alts) == 1
	for _, al := range m.alts {
		g := al.g
		if single {
			g = e.True
		}
		o := e.wobj(st, al.obj)
		for i, c := range o.cells {
			en := c.(StructV)
			hit := e.And(g, e.keyEq(st, en.f[0], k))
			o.cells[i] = StructV{[]Value{en.f[0], en.f[1], e.And(en.f[2].(*Term), e.Not(hit))}}
		}
	}
}

// ----- channels: object cells[0] = closed flag, cells[1:] = queue (unbounded FIFO) -----
// goroutines are pending tasks run to completion when somebody has to wait (schedules are not explored)

func (e *Engine) chanRecv(p *Path, c ChanV, elem types.Type, depth int, commaOk bool) []Result {
	var out []Result
	work := []*State{p.st}
	guard := 0
	for len(work) > 0 {
		st := work[len(work)-1]
		work = work[:len(work)-1]
		for {
			guard++
			if guard > 20000 {
				unsup("receive: pending tasks do not make progress")
			}
			o := e.obj(st, c.obj)
			if len(o.cells) > 1 {
				w := e.wobj(st, c.obj)
				v := w.cells[1]
				w.cells = append([]Value{w.cells[0]}, w.cells[2:]...)
				if commaOk {
					out = append(out, Result{st, TupleV{v, e.True}})
				} else {
					out = append(out, Result{st, v})
				}
				break
			}
			cl := o.cells[0].(*Term)
			if cl.IsTrue() {
				z := e.zero(st, elem)
				if commaOk {
					out = append(out, Result{st, TupleV{z, e.False}})
				} else {
					out = append(out, Result{st, z})
				}
				break
			}
			if !cl.IsFalse() {
				// merged states disagree on whether the channel is closed: take them apart again
				var open *State
				if e.feasible(st.G, e.Not(cl)) {
					open = e.fork(st)
					open.G = e.And(st.G, e.Not(cl))
					e.wobj(open, c.obj).cells[0] = e.False
				}
				if e.feasible(st.G, cl) {
					st.G = e.And(st.G, cl)
					e.wobj(st, c.obj).cells[0] = e.True
					if open != nil {
						work = append(work, open)
					}
					continue
				}
				if open == nil {
					break
				}
				st = open
				continue
			}
			// would block: run one pending task to completion
			if len(st.tasks) == 0 {
				panic(blockedErr{"receive would block forever (no pending goroutine can deliver)", st.G})
			}
			sts := e.runOneTask(st, depth)
			if len(sts) == 0 {
				break
			}
			work = append(work, sts[1:]...)
			st = sts[0]
		}
	}
	return out
}

type blockedErr struct {
	why string
	g   *Term // path condition under which nothing can make progress
}

// runOneTask runs one pending task of st to completion: the oldest one that can complete.  A task that would
// block forever (it waits for something only a goroutine further up the call stack can provide) is rolled
// back - state and recorded outcomes - and stays pending; the next one is tried.  If none can complete the
// whole attempt is reported as blocked to the enclosing task.  The task may end in several states (merged
// when compatible); none = every path of the task ended abnormally.
func (e *Engine) runOneTask(st *State, depth int) []*State {
	tasks := st.tasks
	if len(tasks) == 0 {
		panic(blockedErr{"no pending goroutine", st.G})
	}
	// first pass: a task that completes on its own - with the help of the goroutines it starts itself, but
	// without any other pending goroutine having to run while it waits - is taken first: a pipeline then
	// unwinds stage by stage.  Only when there is none are nested attempts made (a waiting task lets all the
	// others run inside its own attempt), which costs re-execution on every rollback
	for pass := 0; pass < 2; pass++ {
		if sts, ok := e.tryTasks(st, tasks, depth, pass == 0); ok {
			return sts
		}
	}
	panic(blockedErr{"no pending goroutine can make progress", st.G})
}

func (e *Engine) tryTasks(st *State, tasks []Task, depth int, flat bool) (res []*State, done bool) {
	for i, t := range tasks {
		rest := make([]Task, 0, len(tasks)-1)
		rest = append(rest, tasks[:i]...)
		rest = append(rest, tasks[i+1:]...)
		attempt := e.fork(st)
		attempt.tasks = rest
		if flat {
			attempt.tasks = nil // the others are out of sight until this one is through
		}
		nA, nP, nF, nR, nU, nO := len(e.asserts), len(e.panics), len(e.fatals), len(e.reaches), len(e.unwinds), len(e.observes)
		nCatch := len(e.catch)
		var caught []int
		for _, c := range e.catch {
			caught = append(caught, len(c.caught))
		}
		var rs []Result
		blocked := false
		func() {
			defer func() {
				if r := recover(); r != nil {
					if _, ok := r.(blockedErr); ok {
						blocked = true
						return
					}
					panic(r)
				}
			}()
			rs = e.callFn(&Path{st: attempt}, t.fn, t.args, t.env, depth, nil)
		}()
		if blocked {
			// roll back everything the attempt recorded
			e.asserts, e.panics, e.fatals, e.reaches, e.unwinds, e.observes = e.asserts[:nA], e.panics[:nP], e.fatals[:nF], e.reaches[:nR], e.unwinds[:nU], e.observes[:nO]
			e.catch = e.catch[:nCatch]
			for k, c := range e.catch {
				c.caught = c.caught[:caught[k]]
			}
			continue
		}
		if flat {
			for _, r := range rs {
				r.st.tasks = append(append([]Task(nil), rest...), r.st.tasks...)
			}
		}
		rs = e.mergeResults(rs)
		out := make([]*State, len(rs))
		for k, r := range rs {
			out[k] = r.st
		}
		return out, true
	}
	return nil, false
}

func (e *Engine) runPending(p *Path, depth int) []Result {
	var out []Result
	work := []*State{p.st}
	guard := 0
	for len(work) > 0 {
		st := work[len(work)-1]
		work = work[:len(work)-1]
		alive := true
		for len(st.tasks) > 0 {
			guard++
			if guard > 20000 {
				unsup("pending tasks do not terminate")
			}
			sts := e.runOneTask(st, depth)
			if len(sts) == 0 {
				alive = false
				break
			}
			work = append(work, sts[1:]...)
			st = sts[0]
		}
		if alive {
			out = append(out, Result{st, nil})
		}
	}
	return out
}
