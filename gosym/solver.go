package main

import (
	"bufio"
	"fmt"
	"io"
	"os"
	"os/exec"
	"strconv"
	"strings"
	"time"
)

// One persistent solver process. Every shared term is sent once at level 0 as
// declare-const tN + assert (= tN body); a query is push / assert literals / check-sat / pop.

type Solver struct {
	kind    string // z3 | z3-new | cvc5
	cmd     *exec.Cmd
	in      *bufio.Writer
	inc     io.WriteCloser
	out     *bufio.Reader
	defined map[int]bool
	ufDecl  map[string]bool
	nCheck  int
	tCheck  time.Duration
	log     io.Writer
	pushed  bool
	tb      *TB
	dead    bool
	killed  bool
}

type solverError struct{ msg string }

func NewSolver(kind string, tb *TB, perQueryMs int, logic string) *Solver {
	var cmd *exec.Cmd
	switch kind {
	case "z3", "z3-new":
		cmd = exec.Command(kind, "-in")
	case "cvc5":
		cmd = exec.Command("cvc5", "--incremental", "--lang=smt2", fmt.Sprintf("--tlimit-per=%d", perQueryMs))
	default:
		panic("unknown solver " + kind)
	}
	in, _ := cmd.StdinPipe()
	outp, _ := cmd.StdoutPipe()
	cmd.Stderr = cmd.Stdout
	if err := cmd.Start(); err != nil {
		panic(err)
	}
	s := &Solver{kind: kind, cmd: cmd, inc: in, in: bufio.NewWriterSize(in, 1<<16), out: bufio.NewReaderSize(outp, 1<<20),
		defined: map[int]bool{}, ufDecl: map[string]bool{}, tb: tb}
	s.send("(set-option :print-success false)")
	s.send("(set-option :produce-models true)")
	if logic == "" {
		logic = "QF_BV"
	}
	if l := os.Getenv("GOSYM_LOGIC"); l != "" {
		logic = l
	}
	if logic != "none" {
		s.send("(set-logic " + logic + ")")
	}
	return s
}

func (s *Solver) send(line string) {
	if s.log != nil {
		fmt.Fprintln(s.log, line)
	}
	s.in.WriteString(line)
	s.in.WriteByte('\n')
}

// define makes sure t (and its sub-terms) are known to the solver at level 0
func (s *Solver) define(t *Term) {
	if s.defined[t.id] {
		return
	}
	type fr struct {
		t *Term
		i int
	}
	st := []fr{{t, 0}}
	for len(st) > 0 {
		f := &st[len(st)-1]
		if s.defined[f.t.id] {
			st = st[:len(st)-1]
			continue
		}
		if f.i < len(f.t.args) {
			a := f.t.args[f.i]
			f.i++
			if !s.defined[a.id] {
				st = append(st, fr{a, 0})
			}
			continue
		}
		x := f.t
		switch x.op {
		case OpConst:
		case OpVar:
			s.send(fmt.Sprintf("(declare-const %s %s)", x.name, sortOf(x.w)))
		default:
			if x.op == OpUF && !s.ufDecl[x.name] {
				sig := s.tb.ufs[x.name]
				var sb strings.Builder
				for _, w := range sig[:len(sig)-1] {
					sb.WriteString(sortOf(w) + " ")
				}
				s.send(fmt.Sprintf("(declare-fun %s (%s) %s)", x.name, sb.String(), sortOf(sig[len(sig)-1])))
				s.ufDecl[x.name] = true
			}
			s.send(fmt.Sprintf("(declare-const t%d %s)", x.id, sortOf(x.w)))
			s.send(fmt.Sprintf("(assert (= t%d %s))", x.id, x.body()))
		}
		s.defined[x.id] = true
		st = st[:len(st)-1]
	}
}

func (s *Solver) readLine() string {
	l, err := s.out.ReadString('\n')
	if err != nil {
		s.dead = true
		if s.killed {
			panic(solverError{"solver did not honour its time limit and was killed"})
		}
		panic(solverError{"solver died: " + err.Error()})
	}
	return strings.TrimSpace(l)
}

// readAnswer waits for the answer to a check-sat; z3 sometimes ignores its :timeout inside a preprocessing
// tactic, so a watchdog kills the process when nothing comes back within twice the limit plus 30 s (the
// instance is then inconclusive, never passed)
func (s *Solver) readAnswer(timeoutMs int) string {
	limit := 40 * time.Minute
	if timeoutMs > 0 {
		limit = time.Duration(2*timeoutMs)*time.Millisecond + 30*time.Second
	}
	done := make(chan struct{})
	go func() {
		select {
		case <-done:
		case <-time.After(limit):
			s.killed = true
			s.cmd.Process.Kill()
		}
	}()
	defer close(done)
	r := s.readLine()
	for r == "" {
		r = s.readLine()
	}
	return r
}

// Check returns "sat", "unsat" or "unknown" for the conjunction of the given boolean terms.
// The assertion level stays pushed until Pop so that a model can be read.
func (s *Solver) Check(timeoutMs int, conj ...*Term) string {
	s.pushed = false
	for _, c := range conj {
		if c.IsFalse() {
			return "unsat"
		}
	}
	t0 := time.Now()
	for _, c := range conj {
		s.define(c)
	}
	s.pushed = true
	s.send("(push 1)")
	for _, c := range conj {
		if !c.IsTrue() {
			s.send("(assert " + c.ref() + ")")
		}
	}
	if timeoutMs > 0 && s.kind != "cvc5" {
		s.send(fmt.Sprintf("(set-option :timeout %d)", timeoutMs))
	}
	s.send("(check-sat)")
	s.in.Flush()
	r := s.readAnswer(timeoutMs)
	if strings.HasPrefix(r, "(error") {
		panic(solverError{"solver error: " + r})
	}
	if r != "sat" && r != "unsat" {
		if strings.Contains(r, "unknown") || strings.Contains(r, "timeout") || strings.Contains(r, "interrupted") {
			r = "unknown"
		} else {
			panic(solverError{"unexpected solver answer: " + r})
		}
	}
	s.nCheck++
	s.tCheck += time.Since(t0)
	return r
}

// Values must be called right after a sat Check (before Pop).
func (s *Solver) Values(vars []*Term) map[string]uint64 {
	res := map[string]uint64{}
	if len(vars) == 0 {
		return res
	}
	for _, v := range vars {
		s.define(v)
	}
	const chunk = 200
	for lo := 0; lo < len(vars); lo += chunk {
		hi := lo + chunk
		if hi > len(vars) {
			hi = len(vars)
		}
		var sb strings.Builder
		sb.WriteString("(get-value (")
		for _, v := range vars[lo:hi] {
			sb.WriteString(v.ref() + " ")
		}
		sb.WriteString("))")
		s.send(sb.String())
		s.in.Flush()
		// read until parentheses balance
		var txt strings.Builder
		depth, started := 0, false
		for !started || depth > 0 {
			l := s.readLine()
			if strings.HasPrefix(l, "(error") {
				panic(solverError{"solver error: " + l})
			}
			for _, c := range l {
				if c == '(' {
					depth++
					started = true
				} else if c == ')' {
					depth--
				}
			}
			txt.WriteString(l + " ")
		}
		toks := strings.Fields(strings.NewReplacer("(", " ", ")", " ").Replace(txt.String()))
		// tokens: name value | name _ bvN W
		for i := 0; i < len(toks); {
			name := toks[i]
			i++
			if i >= len(toks) {
				break
			}
			val := toks[i]
			i++
			var x uint64
			switch {
			case strings.HasPrefix(val, "#x"):
				x, _ = strconv.ParseUint(val[2:], 16, 64)
			case strings.HasPrefix(val, "#b"):
				x, _ = strconv.ParseUint(val[2:], 2, 64)
			case val == "true":
				x = 1
			case val == "false":
				x = 0
			case val == "_":
				x, _ = strconv.ParseUint(strings.TrimPrefix(toks[i], "bv"), 10, 64)
				i += 2
			}
			res[name] = x
		}
	}
	return res
}

func (s *Solver) Pop() {
	if s.pushed {
		s.send("(pop 1)")
	}
	s.pushed = false
}

func (s *Solver) Close() {
	if s.dead {
		return
	}
	defer func() { recover() }()
	s.send("(exit)")
	s.in.Flush()
	s.inc.Close()
	done := make(chan struct{})
	go func() { s.cmd.Wait(); close(done) }()
	select {
	case <-done:
	case <-time.After(2 * time.Second):
		s.cmd.Process.Kill()
	}
}

func (s *Solver) Kill() {
	defer func() { recover() }()
	s.dead = true
	s.cmd.Process.Kill()
	s.cmd.Wait()
}

// Enumerate lists the values t can take under g (at most max); complete=false when there are more or the
// solver gave up.
func (s *Solver) Enumerate(tb *TB, g, t *Term, max int, timeoutMs int) (vals []uint64, complete bool) {
	s.define(g)
	s.define(t)
	s.send("(push 1)")
	defer func() { s.send("(pop 1)") }()
	if !g.IsTrue() {
		s.send("(assert " + g.ref() + ")")
	}
	for len(vals) <= max {
		if timeoutMs > 0 && s.kind != "cvc5" {
			s.send(fmt.Sprintf("(set-option :timeout %d)", timeoutMs))
		}
		s.send("(check-sat)")
		s.in.Flush()
		r := s.readAnswer(timeoutMs)
		s.nCheck++
		if r == "unsat" {
			return vals, true
		}
		if r != "sat" {
			return vals, false
		}
		if t.IsConst() {
			return []uint64{t.val}, true
		}
		m := s.Values([]*Term{t})
		v, ok := m[t.ref()]
		if !ok {
			return vals, false
		}
		vals = append(vals, v)
		s.send(fmt.Sprintf("(assert (not (= %s (_ bv%d %d))))", t.ref(), v, t.w))
	}
	return vals, false
}
