package main

import (
	"fmt"
	"go/types"

	"golang.org/x/tools/go/ssa"
)

type Value interface{}

type PtrAlt struct {
	g    *Term
	obj  int
	off  *Term // cell index (64-bit term)
	path []int // struct field path inside the cell
}
type Ptr struct{ alts []PtrAlt } // no alternative holds = nil

type SliceV struct {
	p        Ptr
	len, cap *Term
}
type StrV struct { // immutable bytes
	p   Ptr
	len *Term
}
type StructV struct{ f []Value }
type TupleV []Value
type FuncV struct {
	fn  *ssa.Function
	env []Value
}
type FloatV float64
type ArrRef struct{ obj int } // array value: reference to its own object (copied on load/store of array values)
type IfaceAlt struct {
	g   *Term
	typ types.Type
	val Value
}
type IfaceV struct{ alts []IfaceAlt } // no alternative holds = nil interface
// a map value is a guarded set of map objects (no alternative holds = nil map)
type MapAlt struct {
	g   *Term
	obj int
}
type MapV struct{ alts []MapAlt }

type ChanV struct{ obj int }
type Undef struct{ why string }

// map iterator: snapshot of entries taken at Range time
type IterV struct {
	obj int // iterator object: cells[0] = position (const term)
	m   MapV
	s   StrV
	str bool
}

const (
	kindPlain = 0
	kindMap   = 1
	kindChan  = 2
	kindIter  = 3 // map/string iterator: cells[0] = position, always a constant
)

type Obj struct {
	cells []Value
	owner int
	kind  int
	ro    bool // immutable (string constants)
}

type Task struct {
	fn   *ssa.Function
	args []Value
	env  []Value
	id   int
}

type State struct {
	G     *Term
	heap  map[int]*Obj
	stamp int
	tasks []Task
	nDraw int
}

func (e *Engine) newStamp() int { e.stampCtr++; return e.stampCtr }

func (e *Engine) fork(s *State) *State {
	n := &State{G: s.G, heap: make(map[int]*Obj, len(s.heap)), stamp: e.newStamp(), tasks: s.tasks, nDraw: s.nDraw}
	for k, v := range s.heap {
		n.heap[k] = v
	}
	s.stamp = e.newStamp()
	return n
}

func (e *Engine) obj(s *State, id int) *Obj {
	if o, ok := s.heap[id]; ok {
		return o
	}
	if o, ok := e.base[id]; ok {
		return o
	}
	return nil
}

func (e *Engine) wobj(s *State, id int) *Obj {
	o := e.obj(s, id)
	if o == nil {
		panic(fmt.Sprintf("no object %d", id))
	}
	if o.ro {
		unsup("write to read-only object")
	}
	if o.owner != s.stamp {
		c := &Obj{cells: append([]Value(nil), o.cells...), owner: s.stamp, kind: o.kind}
		s.heap[id] = c
		return c
	}
	return o
}

func intWidth(t types.Type) (int, bool) { // width, signed
	b, ok := t.Underlying().(*types.Basic)
	if !ok {
		return -1, false
	}
	switch b.Kind() {
	case types.Bool, types.UntypedBool:
		return 0, false
	case types.Int, types.Int64, types.UntypedInt:
		return 64, true
	case types.Uint, types.Uint64, types.Uintptr:
		return 64, false
	case types.Int32, types.UntypedRune:
		return 32, true
	case types.Uint32:
		return 32, false
	case types.Int16:
		return 16, true
	case types.Uint16:
		return 16, false
	case types.Int8:
		return 8, true
	case types.Uint8:
		return 8, false
	}
	return -1, false
}

func isFloat(t types.Type) bool {
	b, ok := t.Underlying().(*types.Basic)
	return ok && (b.Kind() == types.Float64 || b.Kind() == types.Float32 || b.Kind() == types.UntypedFloat)
}

func isString(t types.Type) bool {
	b, ok := t.Underlying().(*types.Basic)
	return ok && b.Info()&types.IsString != 0
}

func samePath(a, b []int) bool {
	if len(a) != len(b) {
		return false
	}
	for i := range a {
		if a[i] != b[i] {
			return false
		}
	}
	return true
}

func (e *Engine) ptrTo(obj int, off uint64) Ptr {
	return Ptr{[]PtrAlt{{g: e.True, obj: obj, off: e.Const(64, off)}}}
}

func (e *Engine) notNil(p Ptr) *Term {
	r := e.False
	for _, a := range p.alts {
		r = e.Or(r, a.g)
	}
	return r
}

func (e *Engine) ifaceNotNil(v IfaceV) *Term {
	r := e.False
	for _, a := range v.alts {
		if a.typ != nil {
			r = e.Or(r, a.g)
		}
	}
	return r
}

func (e *Engine) mkIface(t types.Type, v Value) IfaceV {
	return IfaceV{[]IfaceAlt{{e.True, t, v}}}
}

func (e *Engine) mapNonNil(m MapV) *Term {
	r := e.False
	for _, a := range m.alts {
		r = e.Or(r, a.g)
	}
	return r
}

func (e *Engine) mkMap(obj int) MapV { return MapV{[]MapAlt{{e.True, obj}}} }
