package main

import (
	"go/types"
	"strings"

	"golang.org/x/tools/go/ssa"
)

// Package initialisation is run lazily (first access to a global of the package), concretely, into the
// shared base heap.  An initialiser the engine cannot execute leaves its target *undefined* (any later use
// of it makes the harness unsupported - never a silent zero).

func (e *Engine) globalPtr(g *ssa.Global) Ptr {
	if g.Pkg != nil && !e.initDone[g.Pkg] {
		e.runInit(g.Pkg)
	}
	id, ok := e.globals[g]
	if !ok {
		unsup("global %s not allocated", g.Name())
	}
	return e.ptrTo(id, 0)
}

func (e *Engine) runInit(sp *ssa.Package) {
	if e.initDone[sp] {
		return
	}
	e.initDone[sp] = true
	st := e.initState
	for _, m := range sp.Members {
		g, ok := m.(*ssa.Global)
		if !ok {
			continue
		}
		func() {
			defer func() {
				if r := recover(); r != nil {
					if _, ok := r.(unsupported); !ok {
						panic(r)
					}
					id := e.newObj(st, []Value{Undef{"global of unsupported type"}})
					e.globals[g] = id
				}
			}()
			el := g.Type().(*types.Pointer).Elem()
			id := e.newObj(st, []Value{e.zero(st, el)})
			e.globals[g] = id
		}()
	}
	fn := sp.Func("init")
	if fn == nil || len(fn.Blocks) == 0 {
		return
	}
	savedCatch, savedDepth := e.catch, e.depthNow
	savedP, savedF, savedA := len(e.panics), len(e.fatals), len(e.asserts)
	e.catch = nil
	defer func() {
		e.catch, e.depthNow = savedCatch, savedDepth
		e.panics, e.fatals, e.asserts = e.panics[:savedP], e.fatals[:savedF], e.asserts[:savedA]
	}()
	st.G = e.True
	act := &Activation{fn: fn, pos: e.wto(fn), sens: map[ssa.Value]bool{}, pending: map[int][]*Path{}, visits: map[int]int{}}
	p := &Path{st: st, regs: map[ssa.Value]Value{}}
	blk := fn.Blocks[0]
	seen := map[int]bool{}
	for blk != nil && !seen[blk.Index] {
		seen[blk.Index] = true
		var next *ssa.BasicBlock
		for _, in := range blk.Instrs {
			switch x := in.(type) {
			case *ssa.If:
				next = blk.Succs[1] // "if initdone goto done else start"
			case *ssa.Jump:
				next = blk.Succs[0]
			case *ssa.Return:
				next = nil
			case *ssa.Call:
				if c := x.Common().StaticCallee(); c != nil && c.Name() == "init" && c.Pkg != sp {
					continue // other packages are initialised on demand
				}
				e.tryInit(act, p, in, sp)
			default:
				e.tryInit(act, p, in, sp)
			}
		}
		blk = next
	}
	st.G = e.True
}

func (e *Engine) tryInit(act *Activation, p *Path, in ssa.Instruction, sp *ssa.Package) {
	defer func() {
		r := recover()
		if r == nil {
			p.st.G = e.True
			return
		}
		switch r.(type) {
		case unsupported, solverError:
		default:
			if _, isErr := r.(error); !isErr {
				panic(r)
			}
		}
		p.st.G = e.True
		why := "init step not executable"
		if u, ok := r.(unsupported); ok {
			why = u.msg
		}
		e.initNotes = append(e.initNotes, sp.Pkg.Path()+": "+strings.TrimSpace(in.String())+": "+why)
		// poison the target
		switch x := in.(type) {
		case *ssa.Store:
			if g, ok := x.Addr.(*ssa.Global); ok {
				e.poisonGlobal(g, why)
			} else if pv, ok := p.regs[x.Addr]; ok {
				if pt, ok := pv.(Ptr); ok && len(pt.alts) == 1 {
					func() {
						defer func() { recover() }()
						e.store(p.st, pt, Undef{why})
					}()
				}
			}
		case *ssa.Call:
			// a user init function that failed half-way: everything it (or its callees in this package) may
			// write is undefined
			if c := x.Common().StaticCallee(); c != nil {
				seen := map[*ssa.Function]bool{}
				e.poisonWrites(c, sp, seen, why)
			}
			p.regs[x] = Undef{why}
		default:
			if v, ok := in.(ssa.Value); ok {
				p.regs[v] = Undef{why}
			}
		}
	}()
	switch x := in.(type) {
	case *ssa.Call:
		rs := e.doCall(p, x, act)
		if len(rs) != 1 {
			unsup("init call ended in %d states", len(rs))
		}
		p.st = rs[0].st
		p.regs[x] = rs[0].val
	default:
		if !e.execSimple(act, p, in) {
			unsup("init instruction panicked")
		}
	}
}

func (e *Engine) poisonGlobal(g *ssa.Global, why string) {
	if id, ok := e.globals[g]; ok {
		e.base[id] = &Obj{cells: []Value{Undef{why}}, owner: -1}
	}
}

func (e *Engine) poisonWrites(fn *ssa.Function, sp *ssa.Package, seen map[*ssa.Function]bool, why string) {
	if fn == nil || seen[fn] || fn.Pkg != sp {
		return
	}
	seen[fn] = true
	var root func(v ssa.Value) *ssa.Global
	root = func(v ssa.Value) *ssa.Global {
		switch x := v.(type) {
		case *ssa.Global:
			return x
		case *ssa.FieldAddr:
			return root(x.X)
		case *ssa.IndexAddr:
			return root(x.X)
		case *ssa.UnOp:
			return root(x.X)
		}
		return nil
	}
	for _, b := range fn.Blocks {
		for _, in := range b.Instrs {
			switch x := in.(type) {
			case *ssa.Store:
				if g := root(x.Addr); g != nil {
					e.poisonGlobal(g, why)
				}
			case *ssa.MapUpdate:
				if g := root(x.Map); g != nil {
					e.poisonGlobal(g, why)
				}
			case *ssa.Call:
				e.poisonWrites(x.Common().StaticCallee(), sp, seen, why)
			}
		}
	}
	for _, an := range fn.AnonFuncs {
		e.poisonWrites(an, sp, seen, why)
	}
}
