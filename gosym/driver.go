package main

import (
	"bufio"
	"bytes"
	"crypto/sha1"
	"encoding/json"
	"flag"
	"fmt"
	"math/rand"
	"os"
	"os/exec"
	"path/filepath"
	"sort"
	"strconv"
	"strings"
	"sync"
	"time"
)

// ---------- native replay ----------

type ReplayFile struct {
	Property string   `json:"property"`
	Harness  string   `json:"harness"`
	Func     string   `json:"func"`
	Pkg      string   `json:"pkg"`
	Files    []string `json:"files"`
	Args     []int    `json:"args"`
	Inputs   []uint64 `json:"inputs"`
	Label    string   `json:"label,omitempty"`
	Kind     string   `json:"kind,omitempty"`
}

type ReplayResult struct {
	Reproduced bool
	Failed     []string // assertion labels that failed natively
	Panicked   bool
	Fatal      bool
	TimedOut   bool
	AssumeFail bool
	Obs        []string
	Reached    []string
	Summary    string
	Output     string
}

var replayMu sync.Mutex // native builds share the go build cache; keep them sequential per package

func writeReplayFile(h HarnessSpec, args []int, inputs []uint64, kind, label string) string {
	rf := ReplayFile{Property: h.Prop, Harness: h.Name, Func: h.Func, Pkg: h.Pkg, Files: h.Files, Args: args, Inputs: inputs, Label: label, Kind: kind}
	data, _ := json.MarshalIndent(rf, "", " ")
	sum := sha1.Sum(data)
	dir := filepath.Join(verifRoot, "replays", h.Prop)
	os.MkdirAll(dir, 0o755)
	path := filepath.Join(dir, fmt.Sprintf("%s-%x.json", h.Name, sum[:5]))
	os.WriteFile(path, data, 0o644)
	return path
}

func nativeReplay(ld *Loaded, h HarnessSpec, args []int, inputs []uint64, path string) ReplayResult {
	if path == "" {
		tmp, _ := os.CreateTemp("", "verif-replay-*.json")
		rf := ReplayFile{Property: h.Prop, Harness: h.Name, Func: h.Func, Pkg: h.Pkg, Files: h.Files, Args: args, Inputs: inputs}
		data, _ := json.Marshal(rf)
		tmp.Write(data)
		tmp.Close()
		path = tmp.Name()
		defer os.Remove(path)
	}
	return replayFile(h.Pkg, h.Files, h.Func, args, path, 120)
}

func replayFile(pkg string, files []string, fn string, args []int, path string, timeoutS int) ReplayResult {
	var rr ReplayResult
	dir, err := os.MkdirTemp("", "verif-native-")
	if err != nil {
		rr.Summary = "cannot create temp dir: " + err.Error()
		return rr
	}
	defer os.RemoveAll(dir)
	pdir := filepath.Join(repoRoot, pkg)
	tmpl, _ := os.ReadFile(filepath.Join(verifRoot, "harness", "rt", "vrt.go.tmpl"))
	ov := map[string]string{}
	pkgName := ""
	for _, f := range files {
		src, err := os.ReadFile(filepath.Join(verifRoot, f))
		if err != nil {
			rr.Summary = err.Error()
			return rr
		}
		if m := pkgRe.FindSubmatch(src); m != nil && pkgName == "" {
			pkgName = string(m[1])
		}
		ov[filepath.Join(pdir, overlayName(f))] = filepath.Join(verifRoot, f)
	}
	rt := filepath.Join(dir, "rt.go")
	os.WriteFile(rt, []byte(strings.Replace(string(tmpl), "PKGNAME", pkgName, 1)), 0o644)
	ov[filepath.Join(pdir, "zz_verif_rt.go")] = rt
	var as []string
	for _, a := range args {
		as = append(as, strconv.Itoa(a))
	}
	test := fmt.Sprintf(`package %s

import (
	"os"
	"testing"
)

func TestVerifReplay(t *testing.T) {
	vLoadReplay(os.Getenv("VERIF_REPLAY"))
	defer vFinish(func() { t.Fail() })
	%s(%s)
}
`, pkgName, fn, strings.Join(as, ", "))
	tf := filepath.Join(dir, "replay_test.go")
	os.WriteFile(tf, []byte(test), 0o644)
	ov[filepath.Join(pdir, "zz_verif_replay_test.go")] = tf
	ovj, _ := json.Marshal(map[string]interface{}{"Replace": ov})
	ovf := filepath.Join(dir, "overlay.json")
	os.WriteFile(ovf, ovj, 0o644)

	replayMu.Lock()
	defer replayMu.Unlock()
	cmd := exec.Command("go", "test", "-v", "-vet=off", "-count=1", "-overlay", ovf, "-run", "^TestVerifReplay$", "-timeout", fmt.Sprintf("%ds", timeoutS), "./"+pkg)
	cmd.Dir = repoRoot
	env := []string{}
	for _, kv := range os.Environ() {
		if strings.HasPrefix(kv, "GOFLAGS=") || strings.HasPrefix(kv, "GOWORK=") || strings.HasPrefix(kv, "VERIF_REPLAY=") {
			continue
		}
		env = append(env, kv)
	}
	cmd.Env = append(env, "GOFLAGS=", "GOPROXY=off", "GOSUMDB=off", "GOTOOLCHAIN=local", "VERIF_REPLAY="+path)
	var out bytes.Buffer
	cmd.Stdout = &out
	cmd.Stderr = &out
	done := make(chan error, 1)
	if err := cmd.Start(); err != nil {
		rr.Summary = "cannot start go test: " + err.Error()
		return rr
	}
	go func() { done <- cmd.Wait() }()
	var runErr error
	select {
	case runErr = <-done:
	case <-time.After(time.Duration(timeoutS+60) * time.Second):
		cmd.Process.Kill()
		rr.TimedOut = true
	}
	rr.Output = out.String()
	sc := bufio.NewScanner(strings.NewReader(rr.Output))
	sc.Buffer(make([]byte, 1<<20), 1<<20)
	ok := false
	for sc.Scan() {
		l := sc.Text()
		switch {
		case strings.HasPrefix(l, "VERIF-ASSERT-FAIL "):
			rr.Failed = append(rr.Failed, strings.TrimPrefix(l, "VERIF-ASSERT-FAIL "))
		case strings.HasPrefix(l, "VERIF-PANIC"):
			rr.Panicked = true
		case strings.HasPrefix(l, "VERIF-ASSUME-FAIL"):
			rr.AssumeFail = true
		case strings.HasPrefix(l, "VERIF-OK"):
			ok = true
		case strings.HasPrefix(l, "VERIF-OBS "):
			rr.Obs = append(rr.Obs, strings.TrimPrefix(l, "VERIF-OBS "))
		case strings.HasPrefix(l, "VERIF-REACH "):
			rr.Reached = append(rr.Reached, strings.TrimPrefix(l, "VERIF-REACH "))
		case strings.HasPrefix(l, "panic: test timed out"):
			rr.TimedOut = true
		case strings.HasPrefix(l, "panic:") || strings.HasPrefix(l, "fatal error:"):
			rr.Panicked = true
		}
	}
	switch {
	case rr.TimedOut:
		rr.Summary = "native run did not terminate"
	case len(rr.Failed) > 0:
		rr.Summary = "native run: assertion failed: " + strings.Join(rr.Failed, ", ")
	case rr.AssumeFail:
		rr.Summary = "native run: an assumption does not hold for this input (engine/native mismatch)"
	case rr.Panicked:
		rr.Summary = "native run: panic"
	case ok && runErr == nil:
		rr.Summary = "native run: all assertions hold"
	default:
		rr.Summary = "native run: could not be built or ended abnormally"
		tail := rr.Output
		if len(tail) > 1500 {
			tail = tail[len(tail)-1500:]
		}
		rr.Summary += "\n" + tail
	}
	return rr
}

func cmdReplay(argv []string) {
	fs := flag.NewFlagSet("replay", flag.ExitOnError)
	file := fs.String("file", "", "replay file")
	fs.Parse(argv)
	if *file == "" && fs.NArg() > 0 {
		*file = fs.Arg(0)
	}
	data, err := os.ReadFile(*file)
	if err != nil {
		fatalf("%v", err)
	}
	var rf ReplayFile
	if err := json.Unmarshal(data, &rf); err != nil {
		fatalf("%v", err)
	}
	abs, _ := filepath.Abs(*file)
	rr := replayFile(rf.Pkg, rf.Files, rf.Func, rf.Args, abs, 300)
	fmt.Println(rr.Summary)
	fmt.Print(rr.Output)
	if len(rr.Failed) > 0 || rr.Panicked || rr.TimedOut {
		fmt.Printf("VIOLATION property=%s replay=%s\n", rf.Property, abs)
		os.Exit(1)
	}
}

// ---------- known findings ----------

type Finding struct {
	Status   string `json:"status"` // finding | fixed
	Property string `json:"property"`
	Harness  string `json:"harness"`
	Label    string `json:"label"`
	What     string `json:"what"`
	Commit   string `json:"commit,omitempty"`
}

func loadFindings() []Finding {
	var out []Finding
	f, err := os.Open(filepath.Join(verifRoot, "known_findings.jsonl"))
	if err != nil {
		return nil
	}
	defer f.Close()
	sc := bufio.NewScanner(f)
	sc.Buffer(make([]byte, 1<<20), 1<<20)
	for sc.Scan() {
		l := strings.TrimSpace(sc.Text())
		if l == "" || strings.HasPrefix(l, "#") {
			continue
		}
		var fd Finding
		if json.Unmarshal([]byte(l), &fd) == nil {
			out = append(out, fd)
		}
	}
	return out
}

// ---------- check: all harnesses of one property ----------

type violation struct {
	h      HarnessSpec
	args   []int
	kind   string
	label  string
	model  []uint64
	replay string
	rr     ReplayResult
}

func cmdCheck(argv []string) {
	fs := flag.NewFlagSet("check", flag.ExitOnError)
	prop := fs.String("prop", "", "property id")
	tier := fs.String("tier", "quick", "quick|thorough")
	only := fs.String("only", "", "restrict to one harness name")
	j := fs.Int("j", 16, "parallel instances")
	solver := fs.String("solver", "z3", "primary solver")
	verbose := fs.Bool("v", false, "print every instance")
	noEvidence := fs.Bool("no-evidence", false, "do not write the evidence file")
	validate := fs.Int("validate", -1, "translator validation vectors per harness (-1 = tier default)")
	fs.Parse(argv)
	if *prop == "" {
		fatalf("check: -prop required")
	}
	seed := int64(1)
	if s := os.Getenv("VERIF_SEED"); s != "" {
		if v, err := strconv.ParseInt(s, 10, 64); err == nil {
			seed = v
		}
	}
	t0 := time.Now()
	var hs []HarnessSpec
	for _, h := range loadSpecs() {
		if h.Prop != *prop || h.Disabled != "" {
			continue
		}
		if *only != "" && h.Name != *only {
			continue
		}
		if _, ok := h.Tiers[*tier]; !ok {
			continue
		}
		hs = append(hs, h)
	}
	if len(hs) == 0 {
		fatalf("no harness for property %s tier %s", *prop, *tier)
	}
	ld := loadProgram(hs)
	fmt.Printf("[%s %s] loaded /repo working tree + %d harness(es) in %.1fs\n", *prop, *tier, len(hs), ld.tLoad.Seconds())

	type job struct {
		h    HarnessSpec
		ts   TierSpec
		args []int
		idx  int
	}
	var jobs []job
	for _, h := range hs {
		ts := h.Tiers[*tier]
		inst := expandArgs(ts.Args)
		if ts.MaxInst > 0 && len(inst) > ts.MaxInst {
			r := rand.New(rand.NewSource(seed))
			r.Shuffle(len(inst), func(a, b int) { inst[a], inst[b] = inst[b], inst[a] })
			inst = inst[:ts.MaxInst]
		}
		for _, a := range inst {
			jobs = append(jobs, job{h, ts, a, len(jobs)})
		}
	}
	results := make([]InstanceRes, len(jobs))
	var wg sync.WaitGroup
	ch := make(chan job)
	var mu sync.Mutex
	doneN := 0
	for w := 0; w < *j; w++ {
		wg.Add(1)
		go func() {
			defer wg.Done()
			for jb := range ch {
				crossEvery := jb.ts.CrossFrac
				if crossEvery == 0 {
					if *tier == "thorough" {
						crossEvery = 5
					} else {
						crossEvery = 7
					}
				}
				// cvc5 is one to two orders of magnitude slower than z3 on these queries: it gives its opinion on
				// every fifth cross-checked instance only
				opt := &Options{Solver: *solver, Cross: jb.idx%crossEvery == 0, CrossCvc5: jb.idx%(crossEvery*5) == 0}
				var res InstanceRes
				func() {
					defer func() {
						if r := recover(); r != nil {
							res = InstanceRes{Harness: jb.h.Name, Args: jb.args, Status: "error", Msg: fmt.Sprint("engine crash: ", r)}
						}
					}()
					res, _ = runInstance(ld, jb.h, jb.ts, jb.args, opt, nil)
				}()
				results[jb.idx] = res
				mu.Lock()
				doneN++
				if *verbose {
					fmt.Printf("  [%d/%d] %s %v: %s %s (exec %dms, solver %dms, %d queries)\n", doneN, len(jobs), res.Harness, res.Args, res.Status, res.Msg, res.ExecMs, res.SolverMs, len(res.Queries))
				}
				mu.Unlock()
			}
		}()
	}
	for _, jb := range jobs {
		ch <- jb
	}
	close(ch)
	wg.Wait()

	// ----- triage -----
	findings := loadFindings()
	hByName := map[string]HarnessSpec{}
	for _, h := range hs {
		hByName[h.Name] = h
	}
	var inconclusive []string
	var viol []violation
	counts := map[string]int{}
	reachSeen := map[string]map[string][]uint64{}
	funcs := map[string]bool{}
	models := map[string]bool{}
	initNotes := map[string]bool{}
	var solverMs, execMs int64
	nQueries, nNonTriv := 0, 0
	sumVisits, sumForks := 0, 0
	for i, r := range results {
		for _, f := range r.Funcs {
			funcs[f] = true
		}
		for _, m := range r.Models {
			models[m] = true
		}
		for _, n := range r.InitNotes {
			initNotes[n] = true
		}
		solverMs += r.SolverMs
		execMs += r.ExecMs
		sumVisits += r.Visits
		sumForks += r.Forks
		counts["instances_"+r.Status]++
		if r.Status == "skipped" {
			continue
		}
		if r.Status != "ok" {
			inconclusive = append(inconclusive, fmt.Sprintf("%s%v: %s: %s", r.Harness, r.Args, r.Status, r.Msg))
			continue
		}
		nNonTriv += r.NonTriv
		for _, q := range r.Queries {
			nQueries++
			if strings.Contains(q.Cross, "DISAGREES") {
				inconclusive = append(inconclusive, fmt.Sprintf("%s%v %s:%s solvers disagree: %s", r.Harness, r.Args, q.Kind, q.Label, q.Cross))
				continue
			}
			switch q.Kind {
			case "assert", "panic", "fatal":
				switch q.Verdict {
				case "unsat":
					counts["unsat"]++
				case "sat":
					counts["sat"]++
					viol = append(viol, violation{h: hByName[r.Harness], args: jobs[i].args, kind: q.Kind, label: q.Label, model: q.Model})
				default:
					inconclusive = append(inconclusive, fmt.Sprintf("%s%v %s:%s %s", r.Harness, r.Args, q.Kind, q.Label, q.Verdict))
				}
			case "reach":
				if q.Verdict == "sat" {
					counts["reach_sat"]++
					if reachSeen[r.Harness] == nil {
						reachSeen[r.Harness] = map[string][]uint64{}
					}
					if _, ok := reachSeen[r.Harness][q.Label]; !ok {
						reachSeen[r.Harness][q.Label] = q.Model
					}
				} else if q.Verdict == "unsat" {
					counts["reach_unsat"]++
				} else {
					counts["reach_unknown"]++
				}
			case "unwind":
				if q.Verdict == "unsat" {
					counts["unwinding_unsat"]++
				} else if q.Verdict == "sat" {
					// the loop really runs longer than the budget for this input: replay decides (non-termination)
					counts["sat"]++
					viol = append(viol, violation{h: hByName[r.Harness], args: jobs[i].args, kind: "unwind", label: q.Label, model: q.Model})
				} else {
					inconclusive = append(inconclusive, fmt.Sprintf("%s%v unwinding assertion %s: %s", r.Harness, r.Args, q.Label, q.Verdict))
				}
			}
		}
	}
	// vacuity: every required reach label must have a witness
	for _, h := range hs {
		for _, l := range h.Tiers[*tier].MinReach {
			if _, ok := reachSeen[h.Name][l]; !ok {
				inconclusive = append(inconclusive, fmt.Sprintf("%s: vacuous: reach label %q has no witness in any instance", h.Name, l))
			}
		}
	}

	// ----- replay sat results natively (one per harness+kind+label, smallest instance first) -----
	sort.SliceStable(viol, func(a, b int) bool {
		sa, sb := 0, 0
		for _, x := range viol[a].args {
			sa += x
		}
		for _, x := range viol[b].args {
			sb += x
		}
		return sa < sb
	})
	type vkey struct{ h, kind, label string }
	confirmed := map[vkey]*violation{}
	tried := map[vkey]int{}
	nReplayed := 0
	for i := range viol {
		v := &viol[i]
		k := vkey{v.h.Name, v.kind, v.label}
		if confirmed[k] != nil || tried[k] >= 3 {
			continue
		}
		tried[k]++
		v.replay = writeReplayFile(v.h, v.args, v.model, v.kind, v.label)
		v.rr = replayFile(v.h.Pkg, v.h.Files, v.h.Func, v.args, v.replay, 120)
		nReplayed++
		repro := false
		switch v.kind {
		case "assert":
			for _, f := range v.rr.Failed {
				if f == v.label {
					repro = true
				}
			}
		case "panic", "fatal":
			repro = v.rr.Panicked
		case "unwind":
			repro = v.rr.TimedOut
		}
		if repro {
			confirmed[k] = v
		} else {
			os.Remove(v.replay)
		}
	}
	for k, n := range tried {
		if confirmed[k] == nil {
			var last *violation
			for i := range viol {
				if viol[i].h.Name == k.h && viol[i].kind == k.kind && viol[i].label == k.label && viol[i].rr.Summary != "" {
					last = &viol[i]
				}
			}
			msg := ""
			if last != nil {
				msg = last.rr.Summary
			}
			inconclusive = append(inconclusive, fmt.Sprintf("ENGINE-MISMATCH %s %s:%s: %d solver model(s) did not reproduce natively: %s", k.h, k.kind, k.label, n, msg))
		}
	}
	nViol, nKnown := 0, 0
	var keys []vkey
	for k := range confirmed {
		keys = append(keys, k)
	}
	sort.Slice(keys, func(a, b int) bool { return fmt.Sprint(keys[a]) < fmt.Sprint(keys[b]) })
	var vioLines []string
	for _, k := range keys {
		v := confirmed[k]
		known := false
		for _, f := range findings {
			if f.Status == "finding" && f.Property == *prop && f.Harness == k.h && (f.Label == k.label || f.Label == k.kind+":"+k.label) {
				fmt.Printf("KNOWN-FINDING: property=%s %s [%s %s:%s args=%v replay=%s]\n", *prop, f.What, k.h, k.kind, k.label, v.args, v.replay)
				known = true
				nKnown++
			}
		}
		if !known {
			nViol++
			fmt.Printf("  violated: %s %s:%s args=%v inputs=%v\n  %s\n", k.h, k.kind, k.label, v.args, v.model, v.rr.Summary)
			vioLines = append(vioLines, fmt.Sprintf("VIOLATION property=%s replay=%s", *prop, v.replay))
		}
	}

	// ----- translator validation (concrete engine run vs native run) -----
	nval := *validate
	if nval < 0 {
		if *tier == "thorough" {
			nval = 3
		} else {
			nval = 1
		}
	}
	valChecked, valBad := 0, 0
	if nval > 0 {
		r := rand.New(rand.NewSource(seed))
		for _, h := range hs {
			var okIdx []int
			for i, jb := range jobs {
				if jb.h.Name == h.Name && results[i].Status == "ok" {
					okIdx = append(okIdx, i)
				}
			}
			for n := 0; n < nval && len(okIdx) > 0; n++ {
				i := okIdx[r.Intn(len(okIdx))]
				vec := make([]uint64, results[i].NInputs)
				// seed the vector from a reach witness when there is one (stays inside the assumptions), then perturb
				for _, q := range results[i].Queries {
					if q.Kind == "reach" && q.Verdict == "sat" && len(q.Model) == len(vec) {
						copy(vec, q.Model)
					}
				}
				if n > 0 {
					for k := range vec {
						if r.Intn(3) == 0 {
							vec[k] = r.Uint64() >> uint(r.Intn(64))
						}
					}
				}
				ok, why := validateOne(ld, h, jobs[i].ts, jobs[i].args, vec)
				valChecked++
				if !ok {
					valBad++
					inconclusive = append(inconclusive, fmt.Sprintf("TRANSLATOR-VALIDATION %s%v: %s", h.Name, jobs[i].args, why))
				}
			}
		}
	}

	wall := time.Since(t0).Seconds()
	fmt.Printf("[%s %s] %d instances (%d ok, %d skipped), %d queries: %d unsat, %d sat (%d replayed natively, %d confirmed), reach witnesses %d, unwinding assertions unsat %d; validation %d/%d; exec %.1fs solver %.1fs wall %.1fs\n",
		*prop, *tier, len(jobs), counts["instances_ok"], counts["instances_skipped"], nQueries, counts["unsat"], counts["sat"], nReplayed, len(confirmed),
		counts["reach_sat"], counts["unwinding_unsat"], valChecked-valBad, valChecked, float64(execMs)/1000, float64(solverMs)/1000, wall)

	if !*noEvidence && *only == "" {
		writeEvidence(*prop, *tier, seed, hs, jobs2inst(results), counts, reachSeen, funcs, models, initNotes, nQueries, nNonTriv, solverMs, execMs, sumVisits, sumForks, wall, nViol, nKnown, valChecked, inconclusive, ld)
	}
	for _, l := range vioLines {
		fmt.Println(l)
	}
	if nViol > 0 {
		os.Exit(1)
	}
	if len(inconclusive) > 0 {
		fmt.Printf("INCONCLUSIVE (%d):\n", len(inconclusive))
		for i, l := range inconclusive {
			if i >= 25 {
				fmt.Printf("  ... %d more\n", len(inconclusive)-i)
				break
			}
			fmt.Println("  " + l)
		}
		os.Exit(2)
	}
	fmt.Printf("PASS property=%s tier=%s\n", *prop, *tier)
}

func jobs2inst(rs []InstanceRes) []InstanceRes { return rs }

// validateOne: the same input vector through the engine (all inputs bound to constants) and through the
// native build: assertion verdicts, panics and observed values must agree.
func validateOne(ld *Loaded, h HarnessSpec, ts TierSpec, args []int, vec []uint64) (bool, string) {
	var res InstanceRes
	func() {
		defer func() {
			if r := recover(); r != nil {
				res.Status, res.Msg = "error", fmt.Sprint(r)
			}
		}()
		res, _ = runInstance(ld, h, ts, args, &Options{Solver: "z3"}, vec)
	}()
	rr := nativeReplay(ld, h, args, vec, "")
	if res.Status == "skipped" || (res.Status == "ok" && len(res.Queries) == 0 && rr.AssumeFail) {
		return true, ""
	}
	if res.Status != "ok" {
		return false, "concrete engine run: " + res.Status + ": " + res.Msg
	}
	engFail := map[string]bool{}
	engPanic := false
	for _, q := range res.Queries {
		if q.Kind == "assert" && q.Verdict == "sat" {
			engFail[q.Label] = true
		}
		if (q.Kind == "panic" || q.Kind == "fatal") && q.Verdict == "sat" {
			engPanic = true
		}
	}
	if rr.AssumeFail {
		// native run rejected the vector by an assumption: the engine must not have reached anything either
		for _, q := range res.Queries {
			if q.Kind == "reach" && q.Verdict == "sat" {
				// reaches before the failing assumption are fine; nothing to compare
			}
		}
		return true, ""
	}
	natFail := map[string]bool{}
	for _, f := range rr.Failed {
		natFail[f] = true
	}
	for l := range engFail {
		if !natFail[l] {
			return false, fmt.Sprintf("engine fails assertion %q on %v, native run does not (%s)", l, vec, rr.Summary)
		}
	}
	for l := range natFail {
		if !engFail[l] {
			return false, fmt.Sprintf("native run fails assertion %q on %v, engine does not", l, vec)
		}
	}
	if engPanic != rr.Panicked {
		return false, fmt.Sprintf("panic behaviour differs on %v: engine %v native %v (%s)", vec, engPanic, rr.Panicked, rr.Summary)
	}
	if !rr.Panicked && !engPanic {
		if strings.Join(res.Observes, "|") != strings.Join(rr.Obs, "|") {
			return false, fmt.Sprintf("observed values differ on %v: engine %v native %v", vec, res.Observes, rr.Obs)
		}
	}
	return true, ""
}

// ---------- evidence ----------

func writeEvidence(prop, tier string, seed int64, hs []HarnessSpec, results []InstanceRes, counts map[string]int,
	reachSeen map[string]map[string][]uint64, funcs, models, initNotes map[string]bool, nQueries, nNonTriv int,
	solverMs, execMs int64, visits, forks int, wall float64, nViol, nKnown, nVal int, inconclusive []string, ld *Loaded) {
	var fl []string
	for f := range funcs {
		if strings.Contains(f, modPath) {
			f = strings.ReplaceAll(f, modPath+"/", "")
			if !strings.Contains(f, "Verif") && !strings.Contains(f, ".v") {
				fl = append(fl, f)
			}
		}
	}
	sort.Strings(fl)
	var ml []string
	for m := range models {
		ml = append(ml, m)
	}
	sort.Strings(ml)
	var samples []interface{}
	bounds := map[string]interface{}{}
	var outside, assumes []string
	for _, h := range hs {
		ts := h.Tiers[tier]
		bounds[h.Name] = map[string]interface{}{"func": h.Func, "args": ts.Args, "unwind_per_block": ts.Unwind, "what": h.Doc}
		outside = append(outside, h.Outside...)
		assumes = append(assumes, h.Assumes...)
		n := 0
		for _, r := range results {
			if r.Harness != h.Name || r.Status != "ok" || n >= 2 {
				continue
			}
			n++
			var qs []string
			for _, q := range r.Queries {
				qs = append(qs, fmt.Sprintf("%s:%s=%s", q.Kind, q.Label, q.Verdict))
			}
			samples = append(samples, map[string]interface{}{"harness": h.Name, "args": r.Args, "symbolic_inputs": r.NInputs, "terms": r.Terms,
				"block_visits": r.Visits, "queries": qs})
		}
		for l, m := range reachSeen[h.Name] {
			samples = append(samples, map[string]interface{}{"harness": h.Name, "reach_witness": l, "inputs": m})
			break
		}
	}
	for m := range models {
		assumes = append(assumes, "environment model: "+m)
	}
	for n := range initNotes {
		_ = n
	}
	assumes = append(assumes, "sequential semantics: goroutines are pending tasks run to completion, channels are FIFO queues; schedules are not explored",
		"sizes are those listed under coverage.bounds; nothing is claimed beyond them",
		"solver verdicts: z3 4.8.12 primary, z3 5.1.0 and cvc5 1.0 z3 5.1.0 cross-checks every 7th instance in quick and every 5th in thorough, cvc5 every fifth of those; 120 s per second opinion")
	sort.Strings(assumes)
	ev := map[string]interface{}{
		"property_id": prop,
		"tier":        tier,
		"seed":        seed,
		"level":       "model_checking",
		"coverage": map[string]interface{}{
			"evaluations":         nQueries,
			"distinct_nontrivial": nNonTriv,
			"rule":                "one evaluation = one solver query (assertion / panic / reach twin / unwinding assertion) over one harness instance; each instance is a distinct argument tuple; non-trivial = the formula still contains symbolic inputs after simplification (needed a check-sat)",
			"samples":             samples,
			"states":              visits,
			"transitions":         forks + visits,
			"traces_validated_against_impl": nVal,
			"functions_encoded":   fl,
			"bounds":              bounds,
			"outside":             outside,
			"queries": map[string]int{"unsat": counts["unsat"], "sat": counts["sat"], "reach_sat": counts["reach_sat"],
				"unwinding_unsat": counts["unwinding_unsat"], "inconclusive": len(inconclusive)},
			"instances":            map[string]int{"ok": counts["instances_ok"], "skipped": counts["instances_skipped"], "total": len(results)},
			"solver_s":             float64(solverMs) / 1000,
			"symbolic_execution_s": float64(execMs) / 1000,
			"known_findings":       nKnown,
			"load_s":               ld.tLoad.Seconds(),
			"exhaustive":           false,
			"explanation":          "bounded symbolic execution of the go/ssa form of the current /repo tree; verdict per query from an SMT solver over all inputs within the bounds",
		},
		"assumptions": assumes,
		"wall_s":      wall,
		"violations":  nViol,
	}
	data, _ := json.MarshalIndent(ev, "", " ")
	os.MkdirAll(filepath.Join(verifRoot, "evidence"), 0o755)
	os.WriteFile(filepath.Join(verifRoot, "evidence", prop+".json"), data, 0o644)
}
