package main

import (
	"fmt"
	"go/types"

	"golang.org/x/tools/go/ssa"
)

type unsupported struct{ msg string }

func unsup(format string, a ...interface{}) { panic(unsupported{fmt.Sprintf(format, a...)}) }

// ---------- heap helpers ----------

func (e *Engine) newObj(st *State, cells []Value) int {
	e.nextObj++
	o := &Obj{cells: cells}
	if st == nil {
		e.base[e.nextObj] = o
		o.owner = -1
	} else {
		o.owner = st.stamp
		st.heap[e.nextObj] = o
	}
	return e.nextObj
}

func (e *Engine) zero(st *State, t types.Type) Value {
	switch u := t.Underlying().(type) {
	case *types.Basic:
		if w, _ := intWidth(t); w >= 0 {
			if w == 0 {
				return e.False
			}
			return e.Const(w, 0)
		}
		if isFloat(t) {
			return FloatV(0)
		}
		if u.Info()&types.IsString != 0 {
			return StrV{len: e.Const(64, 0)}
		}
		if u.Kind() == types.UnsafePointer || u.Kind() == types.UntypedNil {
			return Ptr{}
		}
		if u.Kind() == types.Complex128 || u.Kind() == types.Complex64 {
			return Undef{"complex"}
		}
	case *types.Pointer:
		return Ptr{}
	case *types.Slice:
		return SliceV{len: e.Const(64, 0), cap: e.Const(64, 0)}
	case *types.Struct:
		f := make([]Value, u.NumFields())
		for i := range f {
			f[i] = e.zero(st, u.Field(i).Type())
		}
		return StructV{f}
	case *types.Array:
		n := int(u.Len())
		if n > 1<<22 {
			return Undef{"huge array"}
		}
		cells := make([]Value, n)
		if n > 0 {
			z := e.zero(st, u.Elem())
			_, isArr := z.(ArrRef)
			_, isStruct := z.(StructV)
			for i := range cells {
				if (isArr || isStruct) && i > 0 {
					cells[i] = e.zero(st, u.Elem())
				} else {
					cells[i] = z
				}
			}
		}
		return ArrRef{e.newObj(st, cells)}
	case *types.Signature:
		return FuncV{}
	case *types.Interface:
		return IfaceV{}
	case *types.Map:
		return MapV{}
	case *types.Chan:
		return ChanV{}
	case *types.Tuple:
		tv := make(TupleV, u.Len())
		for i := range tv {
			tv[i] = e.zero(st, u.At(i).Type())
		}
		return tv
	case *types.TypeParam:
		unsup("zero of type parameter %s", t)
	}
	unsup("zero value of %s", t)
	return nil
}

func (e *Engine) alloc(st *State, t types.Type) Ptr {
	id := e.newObj(st, []Value{e.zero(st, t)})
	return e.ptrTo(id, 0)
}

func getPath(v Value, path []int) Value {
	for _, f := range path {
		s, ok := v.(StructV)
		if !ok {
			if u, isU := v.(Undef); isU {
				return u
			}
			unsup("field path through %T", v)
		}
		v = s.f[f]
	}
	return v
}

func setPath(v Value, path []int, nv Value) Value {
	if len(path) == 0 {
		return nv
	}
	s, ok := v.(StructV)
	if !ok {
		unsup("field store through %T", v)
	}
	f := append([]Value(nil), s.f...)
	f[path[0]] = setPath(f[path[0]], path[1:], nv)
	return StructV{f}
}

func hasArr(v Value) bool {
	switch x := v.(type) {
	case ArrRef:
		return true
	case StructV:
		for _, f := range x.f {
			if hasArr(f) {
				return true
			}
		}
	}
	return false
}

// copyVal gives array values (which are references to objects) value semantics.
func (e *Engine) copyVal(st *State, v Value) Value {
	switch x := v.(type) {
	case ArrRef:
		src := e.obj(st, x.obj)
		cells := make([]Value, len(src.cells))
		for i, c := range src.cells {
			if hasArr(c) {
				cells[i] = e.copyVal(st, c)
			} else {
				cells[i] = c
			}
		}
		return ArrRef{e.newObj(st, cells)}
	case StructV:
		if !hasArr(x) {
			return x
		}
		f := make([]Value, len(x.f))
		for i := range f {
			f[i] = e.copyVal(st, x.f[i])
		}
		return StructV{f}
	}
	return v
}

func (e *Engine) identical(a, b Value) bool {
	switch x := a.(type) {
	case *Term:
		y, ok := b.(*Term)
		return ok && x == y
	case FloatV:
		y, ok := b.(FloatV)
		return ok && (x == y || (x != x && y != y))
	case ArrRef:
		y, ok := b.(ArrRef)
		return ok && x == y
	case Ptr:
		y, ok := b.(Ptr)
		if !ok || len(x.alts) != len(y.alts) {
			return false
		}
		for i := range x.alts {
			if x.alts[i].g != y.alts[i].g || x.alts[i].obj != y.alts[i].obj || x.alts[i].off != y.alts[i].off || !samePath(x.alts[i].path, y.alts[i].path) {
				return false
			}
		}
		return true
	case SliceV:
		y, ok := b.(SliceV)
		return ok && x.len == y.len && x.cap == y.cap && e.identical(x.p, y.p)
	case StrV:
		y, ok := b.(StrV)
		return ok && x.len == y.len && e.identical(x.p, y.p)
	case StructV:
		y, ok := b.(StructV)
		if !ok || len(x.f) != len(y.f) {
			return false
		}
		for i := range x.f {
			if !e.identical(x.f[i], y.f[i]) {
				return false
			}
		}
		return true
	case TupleV:
		y, ok := b.(TupleV)
		if !ok || len(x) != len(y) {
			return false
		}
		for i := range x {
			if !e.identical(x[i], y[i]) {
				return false
			}
		}
		return true
	case FuncV:
		y, ok := b.(FuncV)
		return ok && x.fn == y.fn && len(x.env) == len(y.env) && (len(x.env) == 0 || e.identical(TupleV(x.env), TupleV(y.env)))
	case IfaceV:
		y, ok := b.(IfaceV)
		if !ok || len(x.alts) != len(y.alts) {
			return false
		}
		for i := range x.alts {
			if x.alts[i].g != y.alts[i].g || x.alts[i].typ != y.alts[i].typ || !e.identical(x.alts[i].val, y.alts[i].val) {
				return false
			}
		}
		return true
	case MapV:
		y, ok := b.(MapV)
		if !ok || len(x.alts) != len(y.alts) {
			return false
		}
		for i := range x.alts {
			if x.alts[i] != y.alts[i] {
				return false
			}
		}
		return true
	case ChanV:
		y, ok := b.(ChanV)
		return ok && x == y
	case IterV:
		y, ok := b.(IterV)
		return ok && x.obj == y.obj
	case *ssa.Builtin:
		return a == b
	case Undef:
		_, ok := b.(Undef)
		return ok
	case nil:
		return b == nil
	}
	return false
}

func (e *Engine) mergePtr(c *Term, x, y Ptr) Ptr {
	var alts []PtrAlt
	add := func(al PtrAlt, g *Term) {
		g = e.And(al.g, g)
		if g.IsFalse() {
			return
		}
		for i := range alts {
			if alts[i].obj == al.obj && alts[i].off == al.off && samePath(alts[i].path, al.path) {
				alts[i].g = e.Or(alts[i].g, g)
				return
			}
		}
		alts = append(alts, PtrAlt{g, al.obj, al.off, al.path})
	}
	for _, al := range x.alts {
		add(al, c)
	}
	nc := e.Not(c)
	for _, al := range y.alts {
		add(al, nc)
	}
	return Ptr{alts}
}

// mergeValue: c ? a : b
func (e *Engine) mergeValue(c *Term, a, b Value) Value {
	if c.IsTrue() {
		return a
	}
	if c.IsFalse() {
		return b
	}
	if e.identical(a, b) {
		return a
	}
	if a == nil {
		return b
	}
	if b == nil {
		return a
	}
	// an out-of-object read can only belong to an infeasible alternative (every access is bounds-checked
	// against the slice length first): it is the neutral element of a merge
	if u, ok := a.(Undef); ok && u.why == "oob" {
		return b
	}
	if u, ok := b.(Undef); ok && u.why == "oob" {
		return a
	}
	if _, ok := a.(Undef); ok {
		return a
	}
	if _, ok := b.(Undef); ok {
		return b
	}
	switch x := a.(type) {
	case *Term:
		y, ok := b.(*Term)
		if !ok {
			return Undef{"merge term with non-term"}
		}
		return e.Ite(c, x, y)
	case Ptr:
		y, ok := b.(Ptr)
		if !ok {
			return Undef{"merge ptr with non-ptr"}
		}
		return e.mergePtr(c, x, y)
	case SliceV:
		y, ok := b.(SliceV)
		if !ok {
			return Undef{"merge slice with non-slice"}
		}
		if e.mergeStrict && (x.len != y.len || x.cap != y.cap) {
			// lengths stay concrete: paths whose slices differ in length are not merged
			unsup("merging slices of different lengths")
		}
		return SliceV{e.mergePtr(c, x.p, y.p), e.Ite(c, x.len, y.len), e.Ite(c, x.cap, y.cap)}
	case StrV:
		y, ok := b.(StrV)
		if !ok {
			return Undef{"merge string with non-string"}
		}
		if e.mergeStrict && x.len != y.len {
			unsup("merging strings of different lengths")
		}
		return StrV{e.mergePtr(c, x.p, y.p), e.Ite(c, x.len, y.len)}
	case StructV:
		y := b.(StructV)
		f := make([]Value, len(x.f))
		for i := range f {
			f[i] = e.mergeValue(c, x.f[i], y.f[i])
		}
		return StructV{f}
	case TupleV:
		y := b.(TupleV)
		f := make(TupleV, len(x))
		for i := range f {
			f[i] = e.mergeValue(c, x[i], y[i])
		}
		return f
	case IfaceV:
		y := b.(IfaceV)
		var alts []IfaceAlt
		add := func(al IfaceAlt, g *Term) {
			g = e.And(al.g, g)
			if g.IsFalse() || al.typ == nil {
				return
			}
			for i := range alts {
				if alts[i].typ == al.typ || types.Identical(alts[i].typ, al.typ) {
					// same dynamic type: merge payloads (al under g)
					alts[i].val = e.mergeValue(g, al.val, alts[i].val)
					alts[i].g = e.Or(alts[i].g, g)
					return
				}
			}
			alts = append(alts, IfaceAlt{g, al.typ, al.val})
		}
		for _, al := range x.alts {
			add(al, c)
		}
		nc := e.Not(c)
		for _, al := range y.alts {
			add(al, nc)
		}
		return IfaceV{alts}
	case FloatV:
		if e.mergeStrict {
			unsup("merging different floats")
		}
		return Undef{"merge of different floats"}
	case MapV:
		y, ok := b.(MapV)
		if ok {
			var alts []MapAlt
			add := func(al MapAlt, g *Term) {
				g = e.And(al.g, g)
				if g.IsFalse() {
					return
				}
				for i := range alts {
					if alts[i].obj == al.obj {
						alts[i].g = e.Or(alts[i].g, g)
						return
					}
				}
				alts = append(alts, MapAlt{g, al.obj})
			}
			for _, al := range x.alts {
				add(al, c)
			}
			nc := e.Not(c)
			for _, al := range y.alts {
				add(al, nc)
			}
			return MapV{alts}
		}
	}
	if e.mergeStrict {
		// paths that differ in a value without a symbolic merge (closures, distinct maps/channels, floats) stay apart
		unsup("merging values of type %T that have no symbolic join", a)
	}
	return Undef{fmt.Sprintf("cannot merge %T", a)}
}

func (e *Engine) loadAlt(st *State, al PtrAlt) Value {
	o := e.obj(st, al.obj)
	if o == nil {
		unsup("load from unknown object %d", al.obj)
	}
	if al.off.IsConst() {
		k := int(al.off.val)
		if k < 0 || k >= len(o.cells) {
			return Undef{"oob"}
		}
		return getPath(o.cells[k], al.path)
	}
	var v Value
	for k := len(o.cells) - 1; k >= 0; k-- {
		cv := getPath(o.cells[k], al.path)
		if v == nil {
			v = cv
		} else {
			v = e.mergeValue(e.Eq(al.off, e.Const(64, uint64(k))), cv, v)
		}
	}
	if v == nil {
		return Undef{"oob"}
	}
	return v
}

// loadRange limits the ite-chain of a symbolic offset to [lo, hi)
func (e *Engine) loadAltRange(st *State, al PtrAlt, lo, hi int) Value {
	o := e.obj(st, al.obj)
	if al.off.IsConst() {
		return e.loadAlt(st, al)
	}
	if lo < 0 {
		lo = 0
	}
	if hi > len(o.cells) {
		hi = len(o.cells)
	}
	var v Value
	for k := hi - 1; k >= lo; k-- {
		cv := getPath(o.cells[k], al.path)
		if v == nil {
			v = cv
		} else {
			v = e.mergeValue(e.Eq(al.off, e.Const(64, uint64(k))), cv, v)
		}
	}
	if v == nil {
		return Undef{"oob"}
	}
	return v
}

func (e *Engine) load(st *State, p Ptr) Value {
	if len(p.alts) == 0 {
		unsup("nil dereference (load)")
	}
	v := e.loadAlt(st, p.alts[len(p.alts)-1])
	for i := len(p.alts) - 2; i >= 0; i-- {
		v = e.mergeValue(p.alts[i].g, e.loadAlt(st, p.alts[i]), v)
	}
	return v
}

// storeCell writes nv into the slot currently holding old, under guard g, with array value semantics
func (e *Engine) storeInto(st *State, g *Term, old, nv Value) Value {
	if ar, ok := old.(ArrRef); ok {
		if src, ok2 := nv.(ArrRef); ok2 {
			if src.obj == ar.obj {
				return old
			}
			so := e.obj(st, src.obj)
			do := e.wobj(st, ar.obj)
			for k := range do.cells {
				do.cells[k] = e.storeInto(st, g, do.cells[k], so.cells[k])
			}
			return old
		}
	}
	if os, ok := old.(StructV); ok && hasArr(os) {
		if ns, ok2 := nv.(StructV); ok2 {
			f := make([]Value, len(os.f))
			for i := range f {
				f[i] = e.storeInto(st, g, os.f[i], ns.f[i])
			}
			return StructV{f}
		}
	}
	return e.mergeValue(g, nv, old)
}

func (e *Engine) store(st *State, p Ptr, v Value) {
	if len(p.alts) == 0 {
		unsup("nil dereference (store)")
	}
	single := len(p.alts) == 1
	for _, al := range p.alts {
		g := al.g
		if single {
			g = e.True
		}
		o := e.wobj(st, al.obj)
		if al.off.IsConst() {
			k := int(al.off.val)
			if k < 0 || k >= len(o.cells) {
				if !single {
					// one of several targets, too small for this offset: the bounds check that precedes every
					// indexed store has already excluded it from the path condition
					continue
				}
				unsup("store out of object bounds (cell %d of %d, object %d)", k, len(o.cells), al.obj)
			}
			old := getPath(o.cells[k], al.path)
			o.cells[k] = setPath(o.cells[k], al.path, e.storeInto(st, g, old, v))
			continue
		}
		for k := range o.cells {
			c := e.And(g, e.Eq(al.off, e.Const(64, uint64(k))))
			if c.IsFalse() {
				continue
			}
			old := getPath(o.cells[k], al.path)
			o.cells[k] = setPath(o.cells[k], al.path, e.storeInto(st, c, old, v))
		}
	}
}

// ---------- state merging ----------

func sameTasks(a, b []Task) bool {
	if len(a) != len(b) {
		return false
	}
	for i := range a {
		if a[i].id != b[i].id {
			return false
		}
	}
	return true
}

func (e *Engine) mergeStates(sts []*State) *State {
	m := sts[0]
	for _, s := range sts[1:] {
		e.nMerges++
		c := s.G // condition selecting s over accumulated m (guards are disjoint)
		if !sameTasks(m.tasks, s.tasks) {
			unsup("merging states with different pending tasks")
		}
		if m.nDraw != s.nDraw {
			unsup("merging states with different numbers of drawn inputs")
		}
		n := &State{G: e.Or(m.G, s.G), heap: make(map[int]*Obj, len(m.heap)), stamp: e.newStamp(), tasks: m.tasks, nDraw: m.nDraw}
		for id, o := range m.heap {
			n.heap[id] = o
		}
		for id, o := range s.heap {
			mo, ok := n.heap[id]
			if !ok {
				if bo, inBase := e.base[id]; inBase {
					mo = bo
				} else {
					n.heap[id] = o
					continue
				}
			}
			if mo == o {
				continue
			}
			n.heap[id] = e.mergeObj(c, o, mo, n.stamp)
		}
		// objects modified in m only but living in base: merge with base version for s
		for id, o := range m.heap {
			if _, ok := s.heap[id]; ok {
				continue
			}
			if bo, inBase := e.base[id]; inBase && bo != o {
				n.heap[id] = e.mergeObj(c, bo, o, n.stamp)
			}
		}
		m = n
	}
	return m
}

// mergeObj: c ? o : mo
func (e *Engine) mergeObj(c *Term, o, mo *Obj, stamp int) *Obj {
	oc, mc := o.cells, mo.cells
	if o.kind == kindIter && len(oc) > 0 && len(mc) > 0 && oc[0] != mc[0] {
		unsup("merging iterators at different positions")
	}
	if len(oc) != len(mc) {
		switch o.kind {
		case kindMap:
			pad := func(short, long []Value) []Value {
				r := append([]Value(nil), short...)
				for k := len(short); k < len(long); k++ {
					en := long[k].(StructV)
					r = append(r, StructV{[]Value{en.f[0], en.f[1], e.False}})
				}
				return r
			}
			// entries are appended in the same order on both sides only if the shared prefix agrees; check keys
			n := len(oc)
			if len(mc) < n {
				n = len(mc)
			}
			for k := 0; k < n; k++ {
				if !e.identical(oc[k].(StructV).f[0], mc[k].(StructV).f[0]) {
					unsup("merging maps with diverging key order")
				}
			}
			if len(oc) < len(mc) {
				oc = pad(oc, mc)
			} else {
				mc = pad(mc, oc)
			}
		default:
			unsup("merging objects of different sizes (kind %d: %d vs %d)", o.kind, len(oc), len(mc))
		}
	} else if o.kind == kindMap {
		for k := range oc {
			if !e.identical(oc[k].(StructV).f[0], mc[k].(StructV).f[0]) {
				unsup("merging maps with diverging keys")
			}
		}
	}
	cells := make([]Value, len(oc))
	for k := range cells {
		cells[k] = e.mergeValue(c, oc[k], mc[k])
	}
	return &Obj{cells: cells, owner: stamp, kind: o.kind}
}
