#!/usr/bin/env python3
"""Run the repository's test suite (guard off) and compare with /root/.vp/BASELINE.json stable_pass."""
import json, subprocess, sys, os
base = json.load(open('/root/.vp/BASELINE.json'))
want = set(base['stable_pass'])
env = dict(os.environ); env.pop('GOFLAGS', None); env.pop('GOWORK', None)
p = subprocess.run(['go', 'test', '-json', '-vet=off', '-count=1', '-timeout', '25m', './...'], cwd='/repo', env=env, capture_output=True, text=True)
passed = set()
for line in p.stdout.splitlines():
    try:
        ev = json.loads(line)
    except Exception:
        continue
    if ev.get('Action') == 'pass' and ev.get('Test'):
        passed.add(ev['Package'] + '::' + ev['Test'])
missing = sorted(want - passed)
print(f"baseline: {len(want)} expected, {len(want & passed)} pass, {len(missing)} missing")
for m in missing:
    print("  MISSING", m)
sys.exit(1 if missing else 0)
