#!/usr/bin/env python3
"""Generate MANIFEST.json from harness/specs.json + tools/props_meta.json (claimed text per property)."""
import json, os
root = os.path.dirname(os.path.dirname(os.path.abspath(__file__)))
specs = json.load(open(os.path.join(root, 'harness', 'specs.json')))
meta = json.load(open(os.path.join(root, 'tools', 'props_meta.json')))
props = [json.loads(l)['id'] for l in open(os.path.join(root, 'properties.jsonl'))]
claimed = sorted({h['prop'] for h in specs if not h.get('disabled')})
checks = []
for pid in props:
    if pid not in claimed or pid in meta.get('not_applicable', {}):
        continue
    m = meta['claimed'][pid]
    has_thorough = any('thorough' in h['tiers'] for h in specs if h['prop'] == pid)
    c = {
        "property_id": pid,
        "quick_cmd": f"./check {pid} quick",
        "evidence_file": f"evidence/{pid}.json",
        "replay_cmd_template": "./bin/gosym replay {path}",
        "engine": "gosym",
        "level_claimed": {"category": "model_checking", "text": m['text'], "design_ref": m.get('design_ref', 'DESIGN.md §3 ' + pid)},
        "level_note": m['note'],
        "technique": m.get('technique', "bounded symbolic execution of the go/ssa form of the real code (own executor gosym), assertions decided by SMT (z3, cross-checked with z3 5.1 and cvc5), counterexamples replayed natively"),
    }
    if has_thorough:
        c["thorough_cmd"] = f"./check {pid} thorough"
    checks.append(c)
na = [{"property_id": pid, "reason": meta['not_applicable'].get(pid, "no sound solver-based check built yet for this property (see DESIGN.md)")} for pid in props if pid not in [c['property_id'] for c in checks]]
man = {
    "version": 1,
    "setup_cmd": "cd gosym && GOFLAGS=-mod=mod GOPROXY=off GOSUMDB=off GOTOOLCHAIN=local GOWORK=off go build -o ../bin/gosym .",
    "hooks": {"guard": "verif", "enable": "none needed: harnesses and the runtime shim are injected with go/packages overlays (symbolic run) and go test -overlay (native replay); no file of /repo is modified",
              "baseline_off_cmd": "cd /repo && go test -json -vet=off -count=1 -timeout 25m ./...", "source_commits": [], "add_only": True},
    "engines": [{"name": "gosym", "path": "gosym/", "serves_properties": [c['property_id'] for c in checks],
                 "kind_free_text": "symbolic executor for go/ssa (selective state merging, guarded heap, pending-task goroutines) emitting SMT-LIB2 to a persistent z3; sat models replayed with go test -overlay"}],
    "checks": checks,
    "not_applicable": na,
    "notes": "Checks exit 0 (held within the stated bounds), 1 (VIOLATION line, natively reproduced), 2 (inconclusive: solver unknown, engine limit, vacuity or translator-validation failure; never reported as a pass). fix: commits in /repo and known findings are listed in known_findings.jsonl.",
}
json.dump(man, open(os.path.join(root, 'MANIFEST.json'), 'w'), indent=1)
print("claimed:", [c['property_id'] for c in checks], "n/a:", [n['property_id'] for n in na])
