#!/bin/bash
# usage: tools/fix_regress.sh [parallel] : for every `fixed` entry of known_findings.jsonl, reverts that commit on a
# scratch worktree of /repo and runs the harness that found the defect: the violation must be reported again
PAR="${1:-2}"
cd /verif
mkdir -p /tmp/fixreg
python3 - <<'PY' > /tmp/fixreg/list.txt
import json
seen=set()
for l in open('/verif/known_findings.jsonl'):
    d=json.loads(l)
    if d['status']!='fixed': continue
    k=(d['commit'],d['harness'])
    if k in seen: continue
    seen.add(k)
    print(d['commit'],d['property'],d['harness'])
PY
cat /tmp/fixreg/list.txt | xargs -P "$PAR" -L 1 bash -c '
  c=$0; prop=$1; h=$2
  WT=$(mktemp -d /tmp/fwt_XXXXXX); rmdir $WT
  git -C /repo worktree add --detach $WT HEAD -q || exit 0
  if git -C $WT revert --no-commit $c >/dev/null 2>&1; then
    (cd /verif && GOSYM_REPO=$WT timeout 3000 ./bin/gosym check -prop $prop -tier quick -only $h -no-evidence -validate 0 > /tmp/fixreg/$c-$h.log 2>&1)
    echo "$c $prop $h violations=$(grep -c "^VIOLATION" /tmp/fixreg/$c-$h.log) exit=$(grep -c "^PASS" /tmp/fixreg/$c-$h.log | sed "s/1/PASS/;s/0/-/")"
  else
    echo "$c $prop $h revert-conflict"
  fi
  git -C /repo worktree remove --force $WT 2>/dev/null'
