#!/usr/bin/env python3
"""seed_install.py <seed-id> <property> <tmp-seed-dir> <pkg> <needs> <caught-by> : store a confirmed seeded change under /verif/seeded/<seed-id>/"""
import sys, os, shutil, json
sid, prop, src, pkg, needs, caught = sys.argv[1:7]
dst = f"/verif/seeded/{sid}"
os.makedirs(dst, exist_ok=True)
for f in ("patch.diff", "demo_test.go", "notes.md"):
    if os.path.exists(os.path.join(src, f)):
        shutil.copy(os.path.join(src, f), os.path.join(dst, f))
meta = {
    "id": sid, "property": prop, "package": pkg,
    "origin": "written by an independent sub-agent that was given only the property text and a scratch worktree",
    "needs_to_manifest": needs,
    "confirmed": f"tools/seed_verify.sh {src} {pkg}: builds; repository baseline unchanged; demo_test.go passes without the change and fails with it (scratch worktree, removed afterwards)",
    "checked_with": f"tools/seed_check.sh seeded/{sid}/patch.diff {prop} quick (applies the patch to /repo, runs the check, git checkout -- .)",
    "caught_by": caught,
}
json.dump(meta, open(os.path.join(dst, "meta.json"), "w"), indent=1)
print("installed", dst)
