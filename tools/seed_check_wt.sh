#!/bin/bash
# usage: seed_check_wt.sh <patch.diff> <property> [tier] [extra check flags]
# like seed_check.sh but on a scratch worktree of /repo (GOSYM_REPO), so /repo stays untouched and several
# seeded changes can be checked at the same time.  The worktree is removed afterwards.
PATCH="$1"; PROP="$2"; TIER="${3:-quick}"; shift; shift; shift
WT=$(mktemp -d /tmp/swt_XXXXXX); rmdir "$WT"
git -C /repo worktree add --detach "$WT" HEAD -q || exit 2
trap 'git -C /repo worktree remove --force "$WT" 2>/dev/null' EXIT
git -C "$WT" apply "$PATCH" || { echo "patch does not apply"; exit 2; }
cd /verif && GOSYM_REPO="$WT" ./bin/gosym check -prop "$PROP" -tier "$TIER" -no-evidence -validate 0 "$@"; RC=$?
echo "check exit code: $RC"
