#!/bin/bash
# usage: seed_check.sh <patch.diff> <property> [tier] [extra check flags] : applies the seeded change to /repo, runs the check, undoes it
PATCH="$1"; PROP="$2"; TIER="${3:-quick}"; shift; shift; shift
cd /repo && git diff --quiet || { echo "/repo is dirty"; exit 2; }
git -C /repo apply "$PATCH" || { echo "patch does not apply"; exit 2; }
cd /verif && ./check "$PROP" "$TIER" -no-evidence -validate 0 "$@"; RC=$?
git -C /repo checkout -- .
echo "check exit code: $RC"
