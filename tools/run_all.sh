#!/bin/bash
# usage: tools/run_all.sh [quick|thorough] [ids...] : runs the checks one after the other, logs under /tmp/runall_<tier>/
TIER="${1:-quick}"; shift
cd /verif
IDS="$@"
if [ -z "$IDS" ]; then IDS=$(python3 -c "import json; print(' '.join(c['property_id'] for c in json.load(open('MANIFEST.json'))['checks']))"); fi
mkdir -p /tmp/runall_$TIER
for p in $IDS; do
  s=$(date +%s)
  ./check $p $TIER $EXTRA > /tmp/runall_$TIER/$p.log 2>&1; rc=$?
  e=$(date +%s)
  echo "$p exit=$rc $((e-s))s $(grep -E '^\[' /tmp/runall_$TIER/$p.log | tail -1 | cut -c1-200)"
done
