#!/bin/bash
# usage: seed_verify.sh <seed-dir> <pkg-dir-relative> : confirms a seeded change in a scratch worktree
# (compiles, repository tests unchanged, demo passes without and fails with the change)
set -u
SEED="$1"; PKG="$2"
WT=$(mktemp -d /tmp/sv_XXXXXX); rmdir "$WT"
git -C /repo worktree add --detach "$WT" HEAD -q || exit 2
cleanup() { git -C /repo worktree remove --force "$WT" 2>/dev/null; }
trap cleanup EXIT
cd "$WT"
export GOPROXY=off GOFLAGS=
cp "$SEED"/demo_test.go "$PKG"/zz_seed_demo_test.go
echo "== demo WITHOUT the change (must pass)"
if timeout 600 go test -vet=off -count=1 -run . "./$PKG" -timeout 300s > "$SEED"/demo_without.log 2>&1; then echo "  pass"; W=0; else
  # the package may hold pre-existing failing tests: accept if the failures are the baseline ones only
  grep -E "^--- FAIL" "$SEED"/demo_without.log | sort > /tmp/sv_fail_without.txt; echo "  failing tests without change:"; cat /tmp/sv_fail_without.txt; W=1; fi
git apply "$SEED"/patch.diff || { echo "patch does not apply"; exit 1; }
echo "== build"; go build ./... 2>&1 | grep -E "^[a-z].*\.go:[0-9]+:[0-9]+:" | grep -v warning | head
echo "== demo WITH the change (must fail)"
if timeout 600 go test -vet=off -count=1 -run . "./$PKG" -timeout 300s > "$SEED"/demo_with.log 2>&1; then echo "  PASS (seed does not manifest!)"; else grep -E "^--- FAIL|panic: test timed out" "$SEED"/demo_with.log | sort > /tmp/sv_fail_with.txt; echo "  failing tests with change:"; cat /tmp/sv_fail_with.txt; fi
rm -f "$PKG"/zz_seed_demo_test.go
echo "== repository baseline with the change"
python3 - "$WT" <<'PY'
import json, subprocess, sys, os
wt=sys.argv[1]
base=json.load(open('/root/.vp/BASELINE.json')); want=set(base['stable_pass'])
env=dict(os.environ); env.pop('GOFLAGS',None); env['GOPROXY']='off'
p=subprocess.run(['go','test','-json','-vet=off','-count=1','-timeout','25m','./...'],cwd=wt,env=env,capture_output=True,text=True)
passed=set()
for line in p.stdout.splitlines():
    try: ev=json.loads(line)
    except Exception: continue
    if ev.get('Action')=='pass' and ev.get('Test'): passed.add(ev['Package']+'::'+ev['Test'])
missing=sorted(want-passed)
print(f"  baseline: {len(want & passed)}/{len(want)} pass; missing: {missing}")
PY
