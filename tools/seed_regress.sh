#!/bin/bash
# usage: tools/seed_regress.sh [tier] [parallel] : runs every seeded change of /verif/seeded against the check of its
# property, each on its own scratch worktree (tools/seed_check_wt.sh), and reports which ones end in VIOLATION
TIER="${1:-quick}"; PAR="${2:-3}"
cd /verif
mkdir -p /tmp/seedreg
ls -d seeded/*/ | xargs -P "$PAR" -I{} bash -c '
  d={}; id=$(basename $d)
  prop=$(python3 -c "import json;print(json.load(open(\"$d/meta.json\"))[\"property\"])")
  s=$(date +%s)
  tools/seed_check_wt.sh /verif/$d/patch.diff $prop '"$TIER"' > /tmp/seedreg/$id.log 2>&1
  e=$(date +%s)
  echo "$id $prop $((e-s))s violations=$(grep -c "^VIOLATION" /tmp/seedreg/$id.log) $(grep "check exit code" /tmp/seedreg/$id.log)"'
