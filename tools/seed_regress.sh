#!/bin/bash
# usage: tools/seed_regress.sh [tier] : runs every seeded change of /verif/seeded against the check of its property
# (git apply on /repo, ./check, git checkout) and reports which ones end in VIOLATION
TIER="${1:-quick}"
cd /verif
mkdir -p /tmp/seedreg
for d in seeded/*/; do
  id=$(basename $d)
  prop=$(python3 -c "import json;print(json.load(open('$d/meta.json'))['property'])")
  s=$(date +%s)
  tools/seed_check.sh /verif/$d/patch.diff $prop $TIER > /tmp/seedreg/$id.log 2>&1
  e=$(date +%s)
  echo "$id $prop $((e-s))s violations=$(grep -c '^VIOLATION' /tmp/seedreg/$id.log) $(grep 'check exit code' /tmp/seedreg/$id.log)"
done
