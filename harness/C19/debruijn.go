package obikmer

import "git.metabarcoding.org/obitools/obitools4/obitools4/pkg/obiseq"

// C19 (De Bruijn graph part)

func vrKmerAt(s []byte, i, k int) uint64 {
	w, _ := vrWords(s, i, k)
	return w
}

// weights: weight(x) = sum over sequences of count * occurrences(x), for every window x of the pushed sequences
// and for an arbitrary other k-mer; a sequence of length exactly k contributes its single k-mer.
func VerifC19_Weights(k, L1, L2 int) {
	if L1 < k-1 || L2 < k-1 {
		vSkip()
	}
	s1, s2 := vBytes(L1, "acgt"), vBytes(L2, "acgt")
	c1, c2 := vInt(1, 1000), vInt(1, 1000)
	q1, q2 := obiseq.NewBioSequence("a", s1, ""), obiseq.NewBioSequence("b", s2, "")
	q1.SetCount(c1)
	q2.SetCount(c2)
	g := MakeDeBruijnGraph(k)
	g.Push(q1)
	g.Push(q2)
	expect := func(x uint64) int {
		w := 0
		for i := 0; i+k <= L1; i++ {
			if vrKmerAt(s1, i, k) == x {
				w += c1
			}
		}
		for i := 0; i+k <= L2; i++ {
			if vrKmerAt(s2, i, k) == x {
				w += c2
			}
		}
		return w
	}
	ok := true
	for i := 0; i+k <= L1; i++ {
		x := vrKmerAt(s1, i, k)
		ok = ok && g.Weight(x) == expect(x)
	}
	for i := 0; i+k <= L2; i++ {
		x := vrKmerAt(s2, i, k)
		ok = ok && g.Weight(x) == expect(x)
	}
	vAssert(ok, "debruijn-weight-of-every-window")
	y := vU64() & ((uint64(1) << uint(2*k)) - 1)
	vAssert(g.Weight(y) == expect(y), "debruijn-weight-of-arbitrary-kmer")
	vReach("end")
}

// adjacency: Nexts / Previouses of a k-mer of the graph = the k-mers of the graph among its four shifts
func VerifC19_Adjacency(k, L, pos int) {
	if L < k || pos < 0 || pos+k > L {
		vSkip()
	}
	s := vBytes(L, "acgt")
	q := obiseq.NewBioSequence("a", s, "")
	g := MakeDeBruijnGraph(k)
	g.Push(q)
	inGraph := func(x uint64) bool {
		in := false
		for i := 0; i+k <= L; i++ {
			in = in || vrKmerAt(s, i, k) == x
		}
		return in
	}
	mask := (uint64(1) << uint(2*k)) - 1
	x := vrKmerAt(s, pos, k) // the window at pos
	check := func(got []uint64, cand [4]uint64) bool {
		// got must be exactly the candidates that are in the graph, in candidate order
		n := 0
		ok := true
		for b := 0; b < 4; b++ {
			in := inGraph(cand[b])
			listed := false
			for _, y := range got {
				listed = listed || y == cand[b]
			}
			dup := false
			for c := 0; c < b; c++ {
				dup = dup || cand[c] == cand[b]
			}
			ok = ok && (listed == in)
			if in && !dup {
				n++
			}
		}
		for i := 1; i < len(got); i++ {
			ok = ok && got[i-1] < got[i]
		}
		return ok && len(got) == n
	}
	var cn, cp [4]uint64
	for b := uint64(0); b < 4; b++ {
		cn[b] = (x<<2)&mask | b
		cp[b] = x>>2 | b<<uint(2*(k-1))
	}
	vAssert(check(g.Nexts(x), cn), "debruijn-nexts")
	vAssert(check(g.Previouses(x), cp), "debruijn-previouses")
	vReach("end")
}

// concrete topologies (k = 3), symbolic counts
var vTopologies = [][]string{
	{"acgta"},                   // 0 linear
	{"acgttca", "acgctca"},      // 1 one bubble
	{"acgttcagg", "acgctcatg"},  // 2 bubble then fork
	{"acgacg"},                  // 3 cycle acg->cga->gac->acg
	{"acg"},                     // 4 a sequence of length exactly k
	{"aaaa"},                    // 5 self loop
	{"acgta", "ttgca"},          // 6 two components
	{"acgtt", "ccgtg"},          // 7 two sources converging then diverging
	{"aacgt", "cacgg"},          // 8 two sources, shared middle, fork
	{"acgtc", "acgtc", "acgga"}, // 9 the same sequence twice + a branch
	{"ggttcaatg", "ggtacaatg"},  // 10 bubble that reconverges, then a common tail
	{"tcgactatg", "tcgcctatg"},  // 11 same shape, other k-mer code order
}

func vTopo(t int) []string {
	if t < 0 || t >= len(vTopologies) {
		vSkip()
	}
	return vTopologies[t]
}

// heaviest path: a walk of the graph, starting at a source, whose weight is maximal among all walks starting at
// a source (walks enumerated here on the concrete topology); nil exactly when the graph has a cycle; a single
// repeat-free sequence is given back unchanged by the consensus.
func VerifC19_Heaviest(t int) {
	const k = 3
	seqs := vTopo(t)
	g := MakeDeBruijnGraph(k)
	counts := make([]int, len(seqs))
	for i, s := range seqs {
		q := obiseq.NewBioSequence("s", []byte(s), "")
		counts[i] = vInt(1, 50)
		q.SetCount(counts[i])
		g.Push(q)
	}
	// the concrete node set and adjacency, computed here
	var nodes []uint64
	has := func(x uint64) bool {
		for _, n := range nodes {
			if n == x {
				return true
			}
		}
		return false
	}
	for _, s := range seqs {
		for i := 0; i+k <= len(s); i++ {
			if x := vrKmerAt([]byte(s), i, k); !has(x) {
				nodes = append(nodes, x)
			}
		}
	}
	weight := func(x uint64) int {
		w := 0
		for si, s := range seqs {
			for i := 0; i+k <= len(s); i++ {
				if vrKmerAt([]byte(s), i, k) == x {
					w += counts[si]
				}
			}
		}
		return w
	}
	nexts := func(x uint64) []uint64 {
		var r []uint64
		for b := uint64(0); b < 4; b++ {
			if y := (x<<2)&63 | b; has(y) {
				r = append(r, y)
			}
		}
		return r
	}
	isHead := func(x uint64) bool {
		for b := uint64(0); b < 4; b++ {
			if has(x>>2 | b<<4) {
				return false
			}
		}
		return true
	}
	// cycle detection on the concrete graph (DFS colours)
	color := map[uint64]int{}
	cyclic := false
	var dfs func(x uint64)
	dfs = func(x uint64) {
		color[x] = 1
		for _, y := range nexts(x) {
			if color[y] == 1 {
				cyclic = true
			} else if color[y] == 0 {
				dfs(y)
			}
		}
		color[x] = 2
	}
	for _, n := range nodes {
		if color[n] == 0 {
			dfs(n)
		}
	}
	vAssert(g.HasCycle() == cyclic, "debruijn-hascycle")
	path := g.HaviestPath()
	vAssert((path == nil) == cyclic, "debruijn-no-path-iff-cycle")
	if cyclic || path == nil {
		vReach("cyclic")
		return
	}
	// the result is a walk from a source
	okWalk := len(path) > 0 && has(path[0]) && isHead(path[0])
	pw := 0
	for i, x := range path {
		pw += weight(x)
		if i > 0 {
			step := false
			for _, y := range nexts(path[i-1]) {
				step = step || y == x
			}
			okWalk = okWalk && step
		}
	}
	vAssert(okWalk, "debruijn-path-is-a-walk-from-a-source")
	// its weight is maximal among the walks from sources (every prefix of a walk is a walk)
	best := true
	var walk func(x uint64, w int)
	walk = func(x uint64, w int) {
		w += weight(x)
		best = best && pw >= w
		for _, y := range nexts(x) {
			walk(y, w)
		}
	}
	for _, n := range nodes {
		if isHead(n) {
			walk(n, 0)
		}
	}
	vAssert(best, "debruijn-path-weight-is-maximal")
	if len(seqs) == 1 {
		cons, err := g.LongestConsensus("c", 0)
		vAssert(err == nil && cons != nil && string(cons.Sequence()) == seqs[0], "debruijn-single-sequence-returned-unchanged")
	}
	vReach("acyclic")
}
