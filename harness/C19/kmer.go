package obikmer

import (
	"git.metabarcoding.org/obitools/obitools4/obitools4/pkg/obifp"
	"git.metabarcoding.org/obitools/obitools4/obitools4/pkg/obiseq"
)

// C19 (k-mer index part): canonical k-mers of the k-mer index are min(forward, reverse complement) of each
// window (central base dropped in sparse mode), strand invariant, and windows holding an ambiguous base emit
// nothing.  4-mer encoders: one code per window, tables count windows.

func vrCode(c byte) uint64 {
	switch c {
	case 'a':
		return 0
	case 'c':
		return 1
	case 'g':
		return 2
	}
	return 3
}

func vrIsACGT(c byte) bool { return c == 'a' || c == 'c' || c == 'g' || c == 't' }

// forward word and reverse-complement word of the window s[i:i+k], by plain arithmetic
func vrWords(s []byte, i, k int) (fw, rc uint64) {
	for j := 0; j < k; j++ {
		fw = fw<<2 | vrCode(s[i+j])
		rc = rc<<2 | (3 - vrCode(s[i+k-1-j]))
	}
	return
}

// drop the base at position `at` (0 = leftmost) of a k-base word
func vrDropBase(w uint64, k, at int) uint64 {
	right := uint(2 * (k - 1 - at))
	low := w & ((uint64(1) << right) - 1)
	high := w >> (right + 2)
	return high<<right | low
}

func vrCanon(s []byte, i, k int, sparse bool) uint64 {
	fw, rc := vrWords(s, i, k)
	if sparse {
		fw, rc = vrDropBase(fw, k, k/2), vrDropBase(rc, k, k/2)
	}
	if fw < rc {
		return fw
	}
	return rc
}

func vrRevComp(s []byte) []byte {
	r := make([]byte, len(s))
	for i := range s {
		c := s[len(s)-1-i]
		switch c {
		case 'a':
			c = 't'
		case 'c':
			c = 'g'
		case 'g':
			c = 'c'
		case 't':
			c = 'a'
		}
		r[i] = c
	}
	return r
}

// k: k-mer size (even when not sparse, odd when sparse); L: sequence length; amb: position of one 'n' (-1: none)
func VerifC19_Canonical(k, sparse, L, amb int) {
	if (sparse == 0 && k%2 != 0) || (sparse == 1 && k%2 != 1) || L < k-1 || amb >= L {
		vSkip()
	}
	s := vBytes(L, "acgt")
	if amb >= 0 {
		s[amb] = 'n'
	}
	km := NewKmerMap[obifp.Uint64](nil, uint(k), sparse == 1, -1)
	seq := obiseq.NewBioSequence("s", s, "")
	kmers := km.NormalizedKmerSlice(seq, nil)
	// expected: one canonical word per window without ambiguity, in order
	var want []uint64
	for i := 0; i+k <= L; i++ {
		clean := true
		for j := 0; j < k; j++ {
			clean = clean && vrIsACGT(s[i+j])
		}
		if clean {
			want = append(want, vrCanon(s, i, k, sparse == 1))
		}
	}
	vAssert(len(kmers) == len(want), "canonical-one-kmer-per-unambiguous-window")
	if len(kmers) == len(want) {
		ok := true
		for i := range want {
			ok = ok && kmers[i].AsUint64() == want[i]
		}
		vAssert(ok, "canonical-is-min-of-both-strands")
		// strand invariance: the reverse complement yields the same k-mers in reverse order
		rseq := obiseq.NewBioSequence("r", vrRevComp(s), "")
		rk := km.NormalizedKmerSlice(rseq, nil)
		vAssert(len(rk) == len(kmers), "canonical-strand-invariant-count")
		if len(rk) == len(kmers) {
			ok = true
			for i := range kmers {
				ok = ok && rk[len(rk)-1-i].AsUint64() == kmers[i].AsUint64()
			}
			vAssert(ok, "canonical-strand-invariant")
		}
	}
	vReach("end")
}

// 4-mer encoders: no panic for any length (0..3 give nothing), one code per window, tables count windows
var vCodes = []int{0, 27, 228, 255, 6, 64}

// c: which 4-mer code the table entries are checked for (index into vCodes)
func VerifC19_FourMer(L, ci int) {
	if ci < 0 || ci >= len(vCodes) {
		vSkip()
	}
	c := vCodes[ci]
	s := vBytes(L, "acgt")
	seq := obiseq.NewBioSequence("s", s, "")
	var codes []byte
	k := vCatch(func() { codes = Encode4mer(seq, nil) })
	vAssert(k == 0, "encode4mer-no-panic")
	if k != 0 {
		return
	}
	nw := L - 3
	if nw < 0 {
		nw = 0
	}
	vAssert(len(codes) == nw, "encode4mer-one-code-per-window")
	if len(codes) == nw {
		ok := true
		for i := 0; i < nw; i++ {
			fw, _ := vrWords(s, i, 4)
			ok = ok && uint64(codes[i]) == fw
		}
		vAssert(ok, "encode4mer-codes")
	}
	var tab *Table4mer
	k = vCatch(func() { tab = Count4Mer(seq, nil, nil) })
	vAssert(k == 0, "count4mer-no-panic")
	if k == 0 {
		// entry c = number of windows with code c
		n := 0
		for i := 0; i < nw; i++ {
			fw, _ := vrWords(s, i, 4)
			if int(fw) == c {
				n++
			}
		}
		vAssert(int(tab[c]) == n, "count4mer-entry-counts-windows")
	}
	if L > 4 {
		// Index4mer appends to one of 256 position lists selected by the (symbolic) code: beyond one window
		// the list lengths become symbolic, which the executor does not model
		vReach("end")
		return
	}
	var idx [][]int
	k = vCatch(func() { idx = Index4mer(seq, nil, nil) })
	vAssert(k == 0, "index4mer-no-panic")
	if k == 0 {
		var want []int
		for i := 0; i < nw; i++ {
			fw, _ := vrWords(s, i, 4)
			if int(fw) == c {
				want = append(want, i)
			}
		}
		ok := len(idx[c]) == len(want)
		if ok {
			for i := range want {
				ok = ok && idx[c][i] == want[i]
			}
		}
		vAssert(ok, "index4mer-positions")
	}
	vReach("end")
}

// the same with 128-bit words (k = 34: 68 bits), non sparse: the canonical word is compared limb by limb with a
// reference that builds both strands as (high, low) pairs
func vrWords128(s []byte, i, k int) (fhi, flo, rhi, rlo uint64) {
	for j := 0; j < k; j++ {
		fhi = fhi<<2 | flo>>62
		flo = flo<<2 | vrCode(s[i+j])
		rhi = rhi<<2 | rlo>>62
		rlo = rlo<<2 | (3 - vrCode(s[i+k-1-j]))
	}
	return
}

func VerifC19_Canonical128(k, L int) {
	if k%2 != 0 || k <= 32 || k > 64 || L < k {
		vSkip()
		return
	}
	s := vBytes(L, "acgt")
	km := NewKmerMap[obifp.Uint128](nil, uint(k), false, -1)
	kmers := km.NormalizedKmerSlice(obiseq.NewBioSequence("s", s, ""), nil)
	n := L - k + 1
	vAssert(len(kmers) == n, "canonical128-one-kmer-per-window")
	if len(kmers) == n {
		ok := true
		for i := 0; i < n; i++ {
			fhi, flo, rhi, rlo := vrWords128(s, i, k)
			whi, wlo := fhi, flo
			if rhi < fhi || (rhi == fhi && rlo < flo) {
				whi, wlo = rhi, rlo
			}
			ok = ok && kmers[i].AsUint64() == wlo && kmers[i].RightShift(64).AsUint64() == whi
		}
		vAssert(ok, "canonical128-is-min-of-both-strands")
	}
	vReach("end")
}

// work buffers are reused from one sequence to the next (obitag / obirefidx loops): the codes and the table of
// the second sequence must not depend on what the buffer held (a longer, an equal or a shorter first sequence)
func VerifC19_FourMerReuse(L1, L2 int) {
	if L2 < 4 {
		vSkip()
		return
	}
	a, b := vBytes(L1, "acgt"), vBytes(L2, "acgt")
	buffer := make([]byte, 0, 2)
	var first, second, fresh []byte
	var tabSecond, tabFresh *Table4mer
	k := vCatch(func() {
		first = Encode4mer(obiseq.NewBioSequence("a", append([]byte{}, a...), ""), &buffer)
		second = Encode4mer(obiseq.NewBioSequence("b", append([]byte{}, b...), ""), &buffer)
		fresh = Encode4mer(obiseq.NewBioSequence("b", append([]byte{}, b...), ""), nil)
		tabSecond = Count4Mer(obiseq.NewBioSequence("b", append([]byte{}, b...), ""), &buffer, nil)
		tabFresh = Count4Mer(obiseq.NewBioSequence("b", append([]byte{}, b...), ""), nil, nil)
	})
	vAssert(k == 0, "fourmer-reuse-no-panic")
	if k != 0 {
		return
	}
	_ = first
	ok := len(second) == len(fresh) && len(fresh) == L2-3
	if ok {
		for i := range fresh {
			ok = ok && second[i] == fresh[i]
		}
	}
	vAssert(ok, "fourmer-codes-do-not-depend-on-the-reused-buffer")
	vAssert(Sum4Mer(tabSecond) == L2-3 && Common4Mer(tabSecond, tabFresh) == L2-3, "fourmer-table-does-not-depend-on-the-reused-buffer")
	vReach("end")
}
