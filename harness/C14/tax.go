package obitax

import "git.metabarcoding.org/obitools/obitools4/obitools4/pkg/obiseq"

// C14: taxonomy queries on every rooted tree with N nodes.  The tree is a symbolic parent vector in canonical
// topological numbering (parent[i] < i, node 0 is the root and its own parent: every rooted tree has such a
// numbering); ranks are symbolic labels; taxid of node i is 10+i.  The oracle works on the index vector only.

var vRanks = []string{"ra", "rb", "rc"}

type vTree struct {
	n      int
	parent []int // symbolic, parent[0] = 0
	rank   []int // symbolic label index
	tax    *Taxonomy
}

func vBuild(n int) *vTree {
	t := &vTree{n: n, parent: make([]int, n), rank: make([]int, n), tax: NewTaxonomy()}
	for i := 0; i < n; i++ {
		if i > 0 {
			t.parent[i] = vInt(0, i-1)
		}
		t.rank[i] = vInt(0, 2)
	}
	for i := 0; i < n; i++ {
		_, err := t.tax.AddNewTaxa(10+i, 10+t.parent[i], vRanks[t.rank[i]], false, false)
		vAssert(err == nil, "tax-add-new-taxon")
	}
	vAssert(t.tax.ReindexParent() == nil, "tax-reindex")
	return t
}

// anc(a, b): a is an ancestor-or-self of b (bounded iteration of the parent vector)
func (t *vTree) anc(a, b int) bool {
	r := false
	for k := 0; k < t.n; k++ {
		r = r || a == b
		b = t.par(b)
	}
	return r || a == b
}

func (t *vTree) par(b int) int {
	p := 0
	for i := 0; i < t.n; i++ {
		if i == b {
			p = t.parent[i]
		}
	}
	return p
}

func (t *vTree) rk(b int) int {
	p := 0
	for i := 0; i < t.n; i++ {
		if i == b {
			p = t.rank[i]
		}
	}
	return p
}

func (t *vTree) node(x int) *TaxNode {
	nd, err := t.tax.Taxon(10 + x)
	vAssert(err == nil && nd != nil, "tax-known-taxid-resolves")
	return nd
}

func VerifC14_LCA(n int) {
	t := vBuild(n)
	x, y, z := vInt(0, n-1), vInt(0, n-1), vInt(0, n-1)
	nx, ny, nz := t.node(x), t.node(y), t.node(z)
	l, err := nx.LCA(ny)
	vAssert(err == nil && l != nil, "lca-defined")
	if err != nil || l == nil {
		return
	}
	li := l.Taxid() - 10
	vAssert(li >= 0 && li < n && t.anc(li, x) && t.anc(li, y), "lca-is-a-common-ancestor")
	// every common ancestor of x and y is an ancestor of the lca (z plays the arbitrary node)
	vAssert(!(t.anc(z, x) && t.anc(z, y)) || t.anc(z, li), "lca-is-the-deepest-common-ancestor")
	l2, _ := ny.LCA(nx)
	vAssert(l2 == l, "lca-commutative")
	l3, _ := nx.LCA(nx)
	vAssert(l3 == nx, "lca-idempotent")
	a1, _ := l.LCA(nz)
	yz, _ := ny.LCA(nz)
	a2, _ := nx.LCA(yz)
	vAssert(a1 == a2, "lca-associative")
	vReach("end")
}

func VerifC14_PathClade(n int) {
	t := vBuild(n)
	x, y := vInt(0, n-1), vInt(0, n-1)
	nx, ny := t.node(x), t.node(y)
	p, err := nx.Path()
	vAssert(err == nil && p != nil && len(*p) >= 1, "path-defined")
	if err == nil && p != nil && len(*p) >= 1 {
		ok := (*p)[0] == nx && (*p)[len(*p)-1].Taxid() == 10
		cur := x
		for i := 1; i < len(*p); i++ {
			cur = t.par(cur)
			ok = ok && (*p)[i].Taxid() == 10+cur
		}
		vAssert(ok, "path-is-the-parent-chain-to-the-root")
	}
	vAssert(nx.IsSubCladeOf(ny) == t.anc(y, x), "is-subclade-of")
	// a set of two clades
	w := vInt(0, n-1)
	set := TaxonSet{10 + y: ny, 10 + w: t.node(w)}
	vAssert(nx.IsBelongingSubclades(&set) == (t.anc(y, x) || t.anc(w, x)), "is-belonging-subclades")
	vReach("end")
}

func VerifC14_Rank(n int) {
	t := vBuild(n)
	x := vInt(0, n-1)
	r := vInt(0, 2)
	nx := t.node(x)
	// oracle: nearest ancestor-or-self with rank r
	want := -1
	cur := x
	for k := 0; k <= n; k++ {
		if want < 0 && t.rk(cur) == r {
			want = cur
		}
		cur = t.par(cur)
	}
	got := nx.TaxonAtRank(vRanks[r])
	vAssert((got == nil) == (want < 0), "taxon-at-rank-exists-iff-an-ancestor-has-the-rank")
	vAssert(got == nil || want < 0 || got.Taxid() == 10+want, "taxon-at-rank-is-the-nearest")
	vAssert(nx.HasRankDefined(vRanks[r]) == (want >= 0), "has-rank-defined")
	vReach("end")
}

func VerifC14_Alias(n int) {
	t := vBuild(n)
	a, b := vInt(0, n-1), vInt(0, n-1)
	vAssert(t.tax.AddNewAlias(10+a, 100) == nil && t.tax.AddNewAlias(10+b, 101) == nil, "alias-registration-accepted")
	vAssert(t.tax.AddNewAlias(99, 102) != nil, "alias-to-unknown-taxon-refused")
	q := vInt(0, 120)
	nd, err := t.tax.Taxon(q)
	switch {
	case q >= 10 && q < 10+n:
		vAssert(err == nil && nd != nil && nd.Taxid() == q, "taxon-direct")
	case q == 100:
		vAssert(err == nil && nd != nil && nd.Taxid() == 10+a, "alias-resolves-to-its-target")
	case q == 101:
		vAssert(err == nil && nd != nil && nd.Taxid() == 10+b, "alias-resolves-to-its-target")
	default:
		vAssert(err != nil, "unknown-taxid-is-an-error")
	}
	vReach("end")
}

// the sequence predicates built on the taxonomy (obigrep --restrict-to-taxon / --ignore-taxon / --require-rank /
// valid-taxid filter): a record carrying taxid q - a current taxid, a merged-id alias or an unknown id - is
// selected exactly when the tree says so
func VerifC14_SeqPredicates(n int) {
	t := vBuild(n)
	a := vInt(0, n-1)      // target of the alias 100
	c := vInt(0, n-1)      // queried clade
	viaAlias := vBool()    // the clade itself is given by its alias
	qsel := vInt(0, n+1)   // record's taxid: node qsel, n = the alias, n+1 = unknown
	r := vInt(0, 2)        // required rank
	vAssert(t.tax.AddNewAlias(10+a, 100) == nil, "alias-registration-accepted")
	q, x := 10+qsel, qsel // x: the node the record belongs to (-1 unknown)
	if qsel == n {
		q, x = 100, a
	} else if qsel == n+1 {
		q, x = 99, -1
	}
	seq := obiseq.NewBioSequence("s", []byte("acgt"), "")
	seq.SetTaxid(q)
	cladeId := 10 + c
	if viaAlias {
		vAssume(c == a)
		cladeId = 100
	}
	in := t.tax.IsSubCladeOf(cladeId)(seq)
	vAssert(in == (x >= 0 && t.anc(c, x)), "sequence-is-in-clade-iff-its-taxon-descends-from-it")
	vAssert(t.tax.IsAValidTaxon()(seq) == (x >= 0), "sequence-taxid-is-valid-iff-known-or-alias")
	// required rank: defined iff the taxon or one of its ancestors carries it
	used := false
	for i := 0; i < n; i++ {
		used = used || t.rank[i] == r
	}
	if used {
		want := false
		if x >= 0 {
			for i := 0; i < n; i++ {
				want = want || (t.rank[i] == r && t.anc(i, x))
			}
		}
		vAssert(t.tax.HasRequiredRank(vRanks[r])(seq) == want, "sequence-has-required-rank-iff-an-ancestor-carries-it")
	}
	vReach("end")
}
