package obiseq

// C07: reverse complement, subsequence, copy and join laws on symbolic sequences over the IUPAC alphabet.

//verif:stub MOD/pkg/obiutils.MustFillMap = vFillMap

// vFillMap stands for obiutils.MustFillMap (reflection + go-deepcopy) in the symbolic run: same contract -
// every entry copied, map[string]int values deep-copied.  The native replay runs the real one.
func vFillMap(dest, src map[string]interface{}) {
	for k, v := range src {
		if m, ok := v.(map[string]int); ok {
			c := make(map[string]int, len(m))
			for a, b := range m {
				c[a] = b
			}
			dest[k] = c
		} else {
			dest[k] = v
		}
	}
}

const vIupacLower = "acgtrymkswbdhvn.-[]"
const vIupacBoth = "acgtrymkswbdhvnACGTRYMKSWBDHVN.-[]"

// the standard IUPAC complement, written independently (lower case)
func vrComp(c byte) byte {
	if c >= 'A' && c <= 'Z' {
		c += 'a' - 'A'
	}
	switch c {
	case 'a':
		return 't'
	case 't', 'u':
		return 'a'
	case 'c':
		return 'g'
	case 'g':
		return 'c'
	case 'r':
		return 'y'
	case 'y':
		return 'r'
	case 'm':
		return 'k'
	case 'k':
		return 'm'
	case 's':
		return 's'
	case 'w':
		return 'w'
	case 'b':
		return 'v'
	case 'v':
		return 'b'
	case 'd':
		return 'h'
	case 'h':
		return 'd'
	case 'n':
		return 'n'
	case '[':
		return ']'
	case ']':
		return '['
	}
	return c // '.', '-'
}

func vLower(c byte) byte {
	if c >= 'A' && c <= 'Z' {
		return c + ('a' - 'A')
	}
	return c
}

func VerifC07_Complement() {
	b := vByte(vIupacBoth)
	c := nucComplement(b)
	vAssert(c == vrComp(b), "complement-is-standard-iupac")
	vAssert(nucComplement(c) == vLower(b), "complement-involution")
	vReach("end")
}

func vEqBytes(a, b []byte) bool {
	if len(a) != len(b) {
		return false
	}
	ok := true
	for i := range a {
		ok = ok && a[i] == b[i]
	}
	return ok
}

func vClone(a []byte) []byte {
	c := make([]byte, len(a))
	copy(c, a)
	return c
}

func vrRevComp(s []byte) []byte {
	r := make([]byte, len(s))
	for i := range s {
		r[len(s)-1-i] = vrComp(s[i])
	}
	return r
}

func vrRev(s []byte) []byte {
	r := make([]byte, len(s))
	for i := range s {
		r[len(s)-1-i] = s[i]
	}
	return r
}

func vScribble(b []byte) {
	for i := range b {
		b[i] = '#'
	}
}

func vMake(L int, withQual int) (*BioSequence, []byte, []byte) {
	s := vBytes(L, vIupacLower)
	if withQual == 1 {
		q := vBytes(L, "")
		return NewBioSequenceWithQualities("id", s, "", q), s, q
	}
	return NewBioSequence("id", s, ""), s, nil
}

// reverse complement: content, qualities, double application, independence from the source
func VerifC07_RevComp(L, withQual, inplace int) {
	seq, s, q := vMake(L, withQual)
	r := seq.ReverseComplement(inplace == 1)
	vAssert(r != nil && vEqBytes(r.sequence, vrRevComp(s)), "revcomp-nucleotides")
	if withQual == 1 {
		vAssert(vEqBytes(r.qualities, vrRev(q)), "revcomp-qualities-reversed")
	} else {
		vAssert(len(r.qualities) == 0, "revcomp-no-qualities-invented")
	}
	if inplace == 1 {
		vAssert(r == seq, "revcomp-inplace-returns-receiver")
		// twice in place restores nucleotides and qualities
		rr := r.ReverseComplement(true)
		vAssert(vEqBytes(rr.sequence, s), "revcomp-twice-restores-nucleotides")
		if withQual == 1 {
			vAssert(vEqBytes(rr.qualities, q), "revcomp-twice-restores-qualities")
		}
	} else {
		vAssert(r != seq, "revcomp-copy-is-a-new-record")
		vAssert(vEqBytes(seq.sequence, s), "revcomp-copy-leaves-source-unchanged")
		vAssert(L == 0 || !vSameObject(r.sequence, seq.sequence), "revcomp-copy-shares-no-nucleotide-buffer")
		if withQual == 1 && L > 0 {
			vAssert(!vSameObject(r.qualities, seq.qualities), "revcomp-copy-shares-no-quality-buffer")
		}
		want := vrRevComp(s)
		// modifying, then recycling the source does not change the copy
		vScribble(seq.sequence)
		vScribble(seq.qualities)
		vAssert(vEqBytes(r.sequence, want), "revcomp-copy-survives-source-mutation")
		seq.Recycle()
		vAssert(vEqBytes(r.sequence, want), "revcomp-copy-survives-source-recycling")
	}
	vReach("end")
}

// subsequence: the window (of s.s when circular), qualities, independence, mirror law
func VerifC07_Subseq(L, from, to, circular, withQual int) {
	if L < 1 || from < 0 || from >= L || to < 0 || to > L {
		vSkip()
	}
	if circular == 0 && from >= to {
		vSkip()
	}
	if circular == 1 && to < 1 {
		vSkip()
	}
	seq, s, q := vMake(L, withQual)
	sub, err := seq.Subsequence(from, to, circular == 1)
	vAssert(err == nil && sub != nil, "subseq-accepts-documented-window")
	if err != nil || sub == nil {
		return
	}
	// expected window of s.s
	end := to
	if from >= to {
		end = to + L
	}
	want := make([]byte, 0, 2*L)
	wantq := make([]byte, 0, 2*L)
	for i := from; i < end; i++ {
		want = append(want, s[i%L])
		if withQual == 1 {
			wantq = append(wantq, q[i%L])
		}
	}
	vAssert(vEqBytes(sub.sequence, want), "subseq-is-the-window")
	if withQual == 1 {
		vAssert(vEqBytes(sub.qualities, wantq), "subseq-qualities-follow")
	}
	vAssert(!vSameObject(sub.sequence, seq.sequence), "subseq-shares-no-nucleotide-buffer")
	if circular == 0 {
		// mirror law: rc(sub(s, a, b)) = sub(rc(s), L-b, L-a)
		left := vClone(sub.ReverseComplement(false).sequence)
		rcs := seq.ReverseComplement(false)
		right, err2 := rcs.Subsequence(L-to, L-from, false)
		vAssert(err2 == nil && right != nil && vEqBytes(left, right.sequence), "subseq-mirror-law")
	}
	vScribble(seq.sequence)
	vAssert(vEqBytes(sub.sequence, want), "subseq-survives-source-mutation")
	seq.Recycle()
	vAssert(vEqBytes(sub.sequence, want), "subseq-survives-source-recycling")
	vReach("end")
}

// Copy and Join: content and independence in both directions
func VerifC07_CopyJoin(L, L2, withQual int) {
	seq, s, q := vMake(L, withQual)
	c := seq.Copy()
	vAssert(c != seq && vEqBytes(c.sequence, s) && c.id == seq.id, "copy-content")
	if withQual == 1 {
		vAssert(vEqBytes(c.qualities, q), "copy-qualities")
	}
	vAssert(L == 0 || !vSameObject(c.sequence, seq.sequence), "copy-shares-no-buffer")
	other := NewBioSequence("o", vBytes(L2, vIupacLower), "")
	o := vClone(other.sequence)
	j := seq.Join(other, false)
	wantj := append(vClone(s), o...)
	vAssert(j != seq && vEqBytes(j.sequence, wantj), "join-copy-content")
	vAssert(vEqBytes(seq.sequence, s) && vEqBytes(other.sequence, o), "join-copy-leaves-operands-unchanged")
	vScribble(c.sequence)
	vAssert(vEqBytes(seq.sequence, s), "source-survives-copy-mutation")
	c.Recycle()
	vAssert(vEqBytes(seq.sequence, s) && vEqBytes(j.sequence, wantj), "source-and-join-survive-copy-recycling")
	vScribble(seq.sequence)
	seq.Recycle()
	other.Recycle()
	vAssert(vEqBytes(j.sequence, wantj), "join-survives-operand-recycling")
	vReach("end")
}

// position-bearing annotations (pairing_mismatches: 1-based positions) follow the coordinate transform:
// reverse complement p -> L-p+1 (and the mismatch is complemented/swapped); subsequence (from,to] keeps
// exactly the positions of the window, shifted by -from.
func VerifC07_Positions(L, from, to int) {
	if L < 2 || from < 0 || from >= to || to > L {
		vSkip()
	}
	seq, _, _ := vMake(L, 0)
	p1, p2 := vInt(1, L), vInt(1, L)
	seq.SetAttribute("pairing_mismatches", map[string]int{"(a:30)->(c:20)": p1, "(g:11)->(t:12)": p2})
	sub, err := seq.Subsequence(from, to, false)
	vAssert(err == nil && sub != nil, "positions-subseq-ok")
	if err == nil && sub != nil {
		m, _ := sub.GetIntMap("pairing_mismatches")
		v1, ok1 := m["(a:30)->(c:20)"]
		v2, ok2 := m["(g:11)->(t:12)"]
		in1 := p1 > from && p1 <= to
		in2 := p2 > from && p2 <= to
		vAssert(ok1 == in1 && ok2 == in2, "positions-subseq-keeps-exactly-the-window")
		vAssert((!ok1 || !in1 || v1 == p1-from) && (!ok2 || !in2 || v2 == p2-from), "positions-subseq-shifted")
		// the source keeps its own annotation
		sm, _ := seq.GetIntMap("pairing_mismatches")
		vAssert(sm["(a:30)->(c:20)"] == p1 && sm["(g:11)->(t:12)"] == p2, "positions-source-untouched-by-subseq")
	}
	rc := seq.ReverseComplement(false)
	rm, _ := rc.GetIntMap("pairing_mismatches")
	w1, k1 := rm["(g:20)->(t:30)"]
	w2, k2 := rm["(a:12)->(c:11)"]
	vAssert(k1 && k2 && len(rm) == 2, "positions-revcomp-mismatch-complemented")
	vAssert(w1 == L-p1+1 && w2 == L-p2+1, "positions-revcomp-mirrored")
	sm, _ := seq.GetIntMap("pairing_mismatches")
	vAssert(sm["(a:30)->(c:20)"] == p1 && sm["(g:11)->(t:12)"] == p2 && len(sm) == 2, "positions-source-untouched-by-revcomp")
	vReach("end")
}

// copies and reverse complements share no mutable annotation state with their source: a map-valued annotation
// updated in place on one side (as StatsPlusOne does with merged_* maps) leaves the other side unchanged
func VerifC07_CopyAnnotations(L, viaRevComp int) {
	seq, _, _ := vMake(L, 0)
	n := vInt(0, 100)
	seq.SetAttribute("k", 3)
	seq.SetAttribute("m", map[string]int{"x": n})
	var c *BioSequence
	if viaRevComp == 1 {
		c = seq.ReverseComplement(false)
	} else {
		c = seq.Copy()
	}
	cm, okc := c.annotations["m"].(map[string]int)
	sm, oks := seq.annotations["m"].(map[string]int)
	vAssert(okc && oks && cm["x"] == n && c.annotations["k"] == 3, "copy-carries-the-annotations")
	if okc && oks {
		cm["x"] = n + 1
		cm["y"] = 5
		vAssert(sm["x"] == n && len(sm) == 1, "source-annotation-map-survives-update-of-the-copy")
		sm["x"] = n + 7
		vAssert(cm["x"] == n+1, "copy-annotation-map-survives-update-of-the-source")
	}
	c.SetAttribute("k", 4)
	vAssert(seq.annotations["k"] == 3, "source-scalar-annotation-survives-update-of-the-copy")
	vReach("end")
}
