package obiseq

// C06 (accounting core of obiuniq): merging the records of one class (BioSequenceSlice.Merge, BioSequence.Merge,
// StatsOn, StatsPlusOne): the merged count is the sum of the counts, merged_<attribute> gives per attribute
// value the summed weight of the members with that value (the NA value for the members that lack the attribute).

var vCats = []string{"aa", "bb"}

func VerifC06_Merge(n int) {
	if n < 1 || n > 3 {
		vSkip()
	}
	// inputs first
	hasCount := make([]bool, n)
	count := make([]int, n)
	hasCat := make([]bool, n)
	cat := make([]int, n)
	for i := 0; i < n; i++ {
		hasCount[i], count[i], hasCat[i], cat[i] = vBool(), vInt(1, 100), vBool(), vInt(0, 1)
	}
	seqs := MakeBioSequenceSlice()
	for i := 0; i < n; i++ {
		s := NewBioSequence("s", []byte("acgt"), "")
		s.Annotations()
		if hasCount[i] {
			s.SetCount(count[i])
		} else {
			count[i] = 1
		}
		if hasCat[i] {
			s.SetAttribute("sample", vCats[cat[i]])
		}
		seqs = append(seqs, s)
	}
	stats := StatsOnDescriptions{"sample": MakeStatsOnDescription("sample")}
	m := seqs.Merge("NA", stats)

	total := 0
	wantA, wantB, wantNA := 0, 0, 0
	for i := 0; i < n; i++ {
		total += count[i]
		switch {
		case !hasCat[i]:
			wantNA += count[i]
		case cat[i] == 0:
			wantA += count[i]
		default:
			wantB += count[i]
		}
	}
	vAssert(m != nil && m.Count() == total, "merge-count-is-the-sum-of-counts")
	if m == nil {
		return
	}
	raw, _ := m.GetAttribute("merged_sample")
	st, ok := raw.(StatsOnValues)
	vAssert(ok, "merge-has-merged-attribute-map")
	if ok {
		a, okA := st["aa"]
		b, okB := st["bb"]
		na, okNA := st["NA"]
		vAssert(a == wantA && b == wantB && na == wantNA, "merge-merged-map-sums-weights-per-value")
		vAssert(okA == (wantA > 0) && okB == (wantB > 0) && okNA == (wantNA > 0), "merge-merged-map-has-exactly-the-observed-values")
		vAssert(a+b+na == total, "merge-merged-map-total-is-the-count")
	}
	vReach("end")
}

// one member of the class is itself the result of an earlier dereplication: it carries merged_sample
// (typed as the toolkit builds it, as a plain map[string]int, or generic as the JSON header parser returns
// it - with int or float64 values) and the matching count.  It sits first or last in the class.
func VerifC06_MergePremerged(n, kind, pos int) {
	if n < 2 || n > 3 || pos < 0 || pos > 1 {
		vSkip()
	}
	ka := vInt(1, 50)
	hasCount := make([]bool, n)
	count := make([]int, n)
	hasCat := make([]bool, n)
	cat := make([]int, n)
	for i := 1; i < n; i++ {
		hasCount[i], count[i], hasCat[i], cat[i] = vBool(), vInt(1, 100), vBool(), vInt(0, 1)
	}
	pre := NewBioSequence("p", []byte("acgt"), "")
	switch kind {
	case 0:
		pre.SetAttribute("merged_sample", StatsOnValues{"aa": ka})
	case 1:
		pre.SetAttribute("merged_sample", map[string]int{"aa": ka})
	case 2:
		pre.SetAttribute("merged_sample", map[string]interface{}{"aa": ka})
	case 3:
		ka = 2
		pre.SetAttribute("merged_sample", map[string]interface{}{"aa": float64(2)})
	default:
		vSkip()
	}
	pre.SetCount(ka)
	seqs := MakeBioSequenceSlice()
	if pos == 0 {
		seqs = append(seqs, pre)
	}
	total, wantA, wantB, wantNA := ka, ka, 0, 0
	for i := 1; i < n; i++ {
		s := NewBioSequence("s", []byte("acgt"), "")
		s.Annotations()
		if hasCount[i] {
			s.SetCount(count[i])
		} else {
			count[i] = 1
		}
		if hasCat[i] {
			s.SetAttribute("sample", vCats[cat[i]])
		}
		seqs = append(seqs, s)
		total += count[i]
		switch {
		case !hasCat[i]:
			wantNA += count[i]
		case cat[i] == 0:
			wantA += count[i]
		default:
			wantB += count[i]
		}
	}
	if pos == 1 {
		seqs = append(seqs, pre)
	}
	stats := StatsOnDescriptions{"sample": MakeStatsOnDescription("sample")}
	m := seqs.Merge("NA", stats)
	vAssert(m != nil && m.Count() == total, "premerged-count-is-the-sum-of-counts")
	if m == nil {
		return
	}
	st := m.StatsOn(MakeStatsOnDescription("sample"), "NA")
	a, b, na := st["aa"], st["bb"], st["NA"]
	vAssert(a == wantA && b == wantB && na == wantNA, "premerged-map-sums-weights-per-value")
	vAssert(a+b+na == total, "premerged-map-total-is-the-count")
	vReach("end")
}
