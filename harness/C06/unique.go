package obichunk

import (
	"git.metabarcoding.org/obitools/obitools4/obitools4/pkg/obiiter"
	"git.metabarcoding.org/obitools/obitools4/obitools4/pkg/obiseq"
)

// C06 (whole dereplication pipeline, obichunk.IUniqueSequence in memory): hash chunks, sequence sub-classes,
// category sub-classes, merging.  The nucleotide strings are concrete per instance (so that hashing and the
// sequence classifier are concrete); counts, the category attribute and --no-singleton are symbolic.

// the progress bar wrapper (os.Stderr.Stat, timers) is not part of the behaviour
//
//verif:stub (MOD/pkg/obiiter.IBioSequence).Speed = vNoSpeed
func vNoSpeed(it obiiter.IBioSequence, message string, size ...int) obiiter.IBioSequence { return it }

var vSeqs = []string{"aa", "ac", "gt"}
var vCatsU = []string{"x", "y"}

// n records; record i has sequence vSeqs[digit i of pattern (base 3)]; withCat: dereplicate within the category
// attribute "sample"; nbatch: number of hash chunks; the records arrive in two batches split after `cut`
func VerifC06_Unique(n, pattern, withCat, nbatch, cut int) {
	if n < 1 || n > 3 || cut < 0 || cut > n {
		vSkip()
	}
	hasCount := make([]bool, n)
	count := make([]int, n)
	hasCat := make([]bool, n)
	cat := make([]int, n)
	for i := 0; i < n; i++ {
		hasCount[i], count[i], hasCat[i], cat[i] = vBool(), vInt(1, 50), vBool(), vInt(0, 1)
	}
	noSingleton := vBool()
	which := make([]int, n)
	recs := obiseq.MakeBioSequenceSlice()
	for i := 0; i < n; i++ {
		which[i] = pattern % 3
		pattern /= 3
		s := obiseq.NewBioSequence("r", []byte(vSeqs[which[i]]), "")
		s.Annotations()
		if hasCount[i] {
			s.SetCount(count[i])
		} else {
			count[i] = 1
		}
		if hasCat[i] {
			s.SetAttribute("sample", vCatsU[cat[i]])
		}
		recs = append(recs, s)
	}
	in := obiiter.MakeIBioSequence()
	in.Add(1)
	go func() { in.WaitAndClose() }()
	go func() {
		in.Push(obiiter.MakeBioSequenceBatch("src", 0, recs[:cut]))
		in.Push(obiiter.MakeBioSequenceBatch("src", 1, recs[cut:]))
		in.Done()
	}()
	opts := []WithOption{OptionBatchCount(nbatch), OptionsParallelWorkers(1), OptionNAValue("NA"), OptionStatOn("sample"), OptionSortOnMemory()}
	if withCat == 1 {
		opts = append(opts, OptionSubCategory("sample"))
	}
	// the symbolic --no-singleton flag (one closure, so that the option list is the same on every path)
	opts = append(opts, WithOption(func(opt Options) { opt.pointer.noSingleton = noSingleton }))
	out, err := IUniqueSequence(in, opts...)
	vAssert(err == nil, "unique-starts")
	if err != nil {
		return
	}
	var got []*obiseq.BioSequence
	var orders []int
	for out.Next() {
		b := out.Get()
		orders = append(orders, b.Order())
		got = append(got, b.Slice()...)
	}
	okOrd := true
	for i, o := range orders {
		okOrd = okOrd && o == i
	}
	vAssert(okOrd, "unique-output-batches-numbered-0-to-m")

	// reference: key = (sequence, category value or NA when dereplicating within categories)
	// category code: 0 x, 1 y, 2 NA
	key := func(i int) int {
		k := which[i] * 3
		if withCat == 1 {
			if hasCat[i] {
				k += cat[i]
			} else {
				k += 2
			}
		}
		return k
	}
	// what each output record says: its key, count and merged map
	gKey := make([]int, len(got))
	gCount := make([]int, len(got))
	gX := make([]int, len(got))
	gY := make([]int, len(got))
	gNA := make([]int, len(got))
	for j, g := range got {
		gs := g.Sequence()
		gk := -1
		for w, sq := range vSeqs {
			if len(gs) == 2 && gs[0] == sq[0] && gs[1] == sq[1] {
				gk = w * 3
			}
		}
		st := g.StatsOn(obiseq.MakeStatsOnDescription("sample"), "NA")
		gX[j], gY[j], gNA[j] = st["x"], st["y"], st["NA"]
		if withCat == 1 {
			// all members share the category: the only non-zero entry tells it
			switch {
			case gX[j] > 0:
				gk += 0
			case gY[j] > 0:
				gk += 1
			default:
				gk += 2
			}
		}
		gKey[j], gCount[j] = gk, g.Count()
	}
	okAll := true
	nWant := 0
	for k := 0; k < 9; k++ {
		total, members := 0, 0
		wx, wy, wna := 0, 0, 0
		for i := 0; i < n; i++ {
			if key(i) == k {
				members++
				total += count[i]
				switch {
				case !hasCat[i]:
					wna += count[i]
				case cat[i] == 0:
					wx += count[i]
				default:
					wy += count[i]
				}
			}
		}
		expected := members > 0 && !(noSingleton && total == 1)
		if expected {
			nWant++
		}
		found := 0
		for j := range got {
			if gKey[j] == k {
				found++
				okAll = okAll && gCount[j] == total && gX[j] == wx && gY[j] == wy && gNA[j] == wna
			}
		}
		if expected {
			okAll = okAll && found == 1
		} else {
			okAll = okAll && found == 0
		}
	}
	vAssert(len(got) == nWant, "unique-one-record-per-key-singletons-dropped-only-when-asked")
	vAssert(okAll, "unique-counts-and-merged-map-are-the-sums-per-key")
	vReach("end")
}
