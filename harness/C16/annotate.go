package obiannotate

import "git.metabarcoding.org/obitools/obitools4/obitools4/pkg/obiseq"

// C16 (obiannotate): every requested edit is applied to every record, and nothing else changes.

//verif:stub MOD/pkg/obitools/obiannotate.CLIHasAhoCorasick = vNoAhoCorasick
func vNoAhoCorasick() bool { return false }

// the expression language (gval, reflection) is replaced by "the constant 7"; the edit itself stays real
//
//verif:stub MOD/pkg/obiseq.EditAttributeWorker = vEditAttributeWorker
func vEditAttributeWorker(key string, expression string) obiseq.SeqWorker {
	return func(s *obiseq.BioSequence) (obiseq.BioSequenceSlice, error) {
		s.SetAttribute(key, 7)
		return obiseq.BioSequenceSlice{s}, nil
	}
}

func vResetAnnotateOptions() {
	_clearAll, _setSeqLength = false, false
	_toBeDeleted = _toBeDeleted[:0]
	_keepOnly = _keepOnly[:0]
	_taxonAtRank = _taxonAtRank[:0]
	_toBeRenamed = map[string]string{}
	_evalAttribute = map[string]string{}
	_setId, _cut, _pattern, _lcaSlot, _ahoCorazick = "", "", "", "", ""
	_taxonomicPath, _withRank, _withScientificName = false, false, false
}

// --cut from:to.  (1) What a record becomes depends on that record and the option only: the worker gives for
// record B after having processed record A what a fresh worker gives for B.  (2) For 1 <= from <= to <= length
// the result is bases from..to (1-based, inclusive).
func VerifC16_Cut(LA, LB, from, to int) {
	if from == 0 || to == 0 {
		vSkip()
		return
	}
	basesA := vBytes(LA, "acgt")
	basesB := vBytes(LB, "acgt")
	keepB := append([]byte{}, basesB...)
	a := obiseq.NewBioSequence("a", basesA, "")
	b1 := obiseq.NewBioSequence("b", append([]byte{}, keepB...), "")
	b2 := obiseq.NewBioSequence("b", append([]byte{}, keepB...), "")

	w := CutSequenceWorker(from, to, false)
	w(a)
	r1, e1 := w(b1)
	fresh := CutSequenceWorker(from, to, false)
	r2, e2 := fresh(b2)

	same := (e1 == nil) == (e2 == nil)
	if same && e1 == nil {
		s1, s2 := r1[0].Sequence(), r2[0].Sequence()
		same = len(s1) == len(s2)
		if same {
			for i := range s1 {
				same = same && s1[i] == s2[i]
			}
		}
	}
	vAssert(same, "cut-result-depends-on-the-record-only")

	if from >= 1 && from <= to && to <= LB {
		ok := e2 == nil && len(r2) == 1
		if ok {
			s2 := r2[0].Sequence()
			ok = len(s2) == to-from+1
			if ok {
				for i := range s2 {
					ok = ok && s2[i] == keepB[from-1+i]
				}
			}
		}
		vAssert(ok, "cut-positive-range-is-bases-from-to-inclusive")
	}
	vReach("end")
}

// --set-attribute given n times (n keys): every one of them is set on the record (whatever the order in which
// the option map is visited: the keys are inserted in every order)
func VerifC16_SetAttributes(n, order int) {
	vResetAnnotateOptions()
	keys := []string{"ka", "kb", "kc"}[:n]
	// insertion order = permutation number `order` of the keys
	perm := []int{0, 1, 2}[:n]
	for i := 0; i < n; i++ {
		j := i + order%(n-i)
		order /= (n - i)
		perm[i], perm[j] = perm[j], perm[i]
	}
	for _, p := range perm {
		_evalAttribute[keys[p]] = "7"
	}
	seq := obiseq.NewBioSequence("id", []byte("acgt"), "")
	w := CLIAnnotationWorker()
	vAssert(w != nil, "setattr-a-worker-is-built")
	if w != nil {
		res, err := w(seq)
		ok := err == nil && len(res) == 1 && res[0] == seq
		for _, k := range keys {
			ok = ok && seq.HasAttribute(k)
		}
		vAssert(ok, "setattr-every-requested-attribute-is-set")
	}
	vReach("end")
}

// clear / delete / keep / rename / length in every combination (symbolic flags) on a record whose attributes
// a, b, c are present or absent (symbolic): the annotations afterwards are exactly the ones the requested edits
// leave (applied in the documented order clear, delete, keep, rename, length), identifier and bases untouched.
func VerifC16_Edits(L int) {
	clear, del, keep, ren, length := vBool(), vBool(), vBool(), vBool(), vBool()
	hasA, hasB, hasC := vBool(), vBool(), vBool()
	bases := vBytes(L, "acgt")
	vResetAnnotateOptions()
	_clearAll, _setSeqLength = clear, length
	if del {
		_toBeDeleted = append(_toBeDeleted, "a")
	}
	if keep {
		_keepOnly = append(_keepOnly, "b", "c")
	}
	if ren {
		_toBeRenamed["c2"] = "c"
	}
	seq := obiseq.NewBioSequence("id", bases, "")
	seq.Annotations()
	if hasA {
		seq.SetAttribute("a", 1)
	}
	if hasB {
		seq.SetAttribute("b", 2)
	}
	if hasC {
		seq.SetAttribute("c", 3)
	}
	w := CLIAnnotationWorker()
	requested := clear || del || keep || ren || length
	vAssert((w != nil) == requested, "edits-a-worker-exists-iff-an-edit-is-requested")
	if w != nil {
		res, err := w(seq)
		vAssert(err == nil && len(res) == 1 && res[0] == seq, "edits-the-record-itself-is-returned")
	}
	// reference
	wa, wb, wc, wc2 := hasA, hasB, hasC, false
	if clear {
		wa, wb, wc = false, false, false
	}
	if del {
		wa = false
	}
	if keep {
		wa = false
	}
	if ren && wc {
		wc, wc2 = false, true
	}
	va, okA := seq.GetAttribute("a")
	vb, okB := seq.GetAttribute("b")
	vc, okC := seq.GetAttribute("c")
	vc2, okC2 := seq.GetAttribute("c2")
	vl, okL := seq.GetAttribute("seq_length")
	ok := okA == wa && okB == wb && okC == wc && okC2 == wc2 && okL == length
	if ok {
		ok = (!okA || va == 1) && (!okB || vb == 2) && (!okC || vc == 3) && (!okC2 || vc2 == 3) && (!okL || vl == L)
	}
	vAssert(ok, "edits-annotations-are-exactly-what-the-requested-edits-leave")
	n := 0
	for range seq.Annotations() {
		n++
	}
	wantN := 0
	for _, x := range []bool{wa, wb, wc, wc2, length} {
		if x {
			wantN++
		}
	}
	vAssert(n == wantN, "edits-no-other-attribute-appears")
	same := seq.Id() == "id" && seq.Len() == L
	if same {
		for i, c := range seq.Sequence() {
			same = same && c == bases[i]
		}
	}
	vAssert(same, "edits-identifier-and-bases-untouched")
	vReach("end")
}
