package obigrep

import "git.metabarcoding.org/obitools/obitools4/obitools4/pkg/obiseq"

// C16 (obigrep): the selection predicate built from the option variables - with SYMBOLIC option values - keeps
// exactly the records that satisfy every requested criterion, whatever combination of criteria is given, and -v
// keeps exactly the others.  Criteria covered: min/max length, min/max count, required attributes.

const vUnset = int(2e9)

func VerifC16_Selection(L int) {
	// every input is drawn first (fixed replay layout)
	minLen, maxLenSet, maxLen := vInt(1, 8), vBool(), vInt(0, 8)
	minCnt, maxCntSet, maxCnt := vInt(1, 8), vBool(), vInt(0, 8)
	needA, needB, invert := vBool(), vBool(), vBool()
	bases := vBytes(L, "acgt")
	hasCount, count := vBool(), vInt(1, 10)
	hasA, hasB := vBool(), vBool()

	// options (as the command line parser leaves them)
	_MinimumLength = minLen
	_MaximumLength = vUnset
	if maxLenSet {
		_MaximumLength = maxLen
	}
	_MinimumCount = minCnt
	_MaximumCount = vUnset
	if maxCntSet {
		_MaximumCount = maxCnt
	}
	_RequiredAttributes = _RequiredAttributes[:0]
	if needA {
		_RequiredAttributes = append(_RequiredAttributes, "ka")
	}
	if needB {
		_RequiredAttributes = append(_RequiredAttributes, "kb")
	}
	_InvertMatch = invert

	// the record
	seq := obiseq.NewBioSequence("id", bases, "")
	seq.Annotations() // the annotation map exists on every path (one object)
	if hasCount {
		seq.SetCount(count)
	} else {
		count = 1
	}
	if hasA {
		seq.SetAttribute("ka", "x")
	}
	if hasB {
		seq.SetAttribute("kb", 3)
	}

	p := CLISequenceSelectionPredicate()

	requested := _MinimumLength > 1 || _MaximumLength != vUnset || _MinimumCount > 1 || _MaximumCount != vUnset || needA || needB
	want := (_MinimumLength <= 1 || L >= _MinimumLength) &&
		(_MaximumLength == vUnset || L <= _MaximumLength) &&
		(_MinimumCount <= 1 || count >= _MinimumCount) &&
		(_MaximumCount == vUnset || count <= _MaximumCount) &&
		(!needA || hasA) && (!needB || hasB)

	if !requested {
		// no criterion: every record is kept (what -v means without criterion is not specified)
		vAssert(p == nil || _InvertMatch || p(seq), "selection-without-criterion-keeps-everything")
		vReach("no-criterion")
		return
	}
	vAssert(p != nil, "selection-predicate-built-when-a-criterion-is-requested")
	if p != nil {
		got := p(seq)
		if _InvertMatch {
			vAssert(got == !want, "selection-inverted-keeps-exactly-the-others")
		} else {
			vAssert(got == want, "selection-keeps-exactly-the-records-satisfying-every-criterion")
		}
	}
	vReach("end")
}
