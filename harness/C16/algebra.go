package obiseq

// C16 (predicate algebra): And / Or / Xor / Not, nil operands, and the six paired-read modes

func VerifC16_Algebra() {
	a := NewBioSequence("a", []byte("acgt"), "")
	b := NewBioSequence("b", []byte("acgt"), "")
	a.PairTo(b)
	single := NewBioSequence("s", []byte("acgt"), "")
	// arbitrary base predicates: one symbolic verdict per (predicate, record)
	v := [2][3]bool{{vBool(), vBool(), vBool()}, {vBool(), vBool(), vBool()}}
	mk := func(k int) SequencePredicate {
		return func(s *BioSequence) bool {
			switch s {
			case a:
				return v[k][0]
			case b:
				return v[k][1]
			}
			return v[k][2]
		}
	}
	p, q := mk(0), mk(1)
	var null SequencePredicate
	ok := p.And(q)(a) == (v[0][0] && v[1][0]) && p.Or(q)(a) == (v[0][0] || v[1][0]) &&
		p.Xor(q)(a) == (v[0][0] != v[1][0]) && p.Not()(a) == !v[0][0]
	vAssert(ok, "predicate-and-or-xor-not")
	ok = null.And(p)(a) == v[0][0] && p.And(null)(a) == v[0][0] && null.Or(p)(a) == v[0][0] && p.Or(null)(a) == v[0][0] &&
		null.Not() == nil && null.And(null) == nil
	vAssert(ok, "predicate-nil-is-neutral")
	f, r := v[0][0], v[0][1]
	ok = p.PairedPredicat(ForwardOnly)(a) == f &&
		p.PairedPredicat(ReverseOnly)(a) == r &&
		p.PairedPredicat(And)(a) == (f && r) &&
		p.PairedPredicat(Or)(a) == (f || r) &&
		p.PairedPredicat(AndNot)(a) == (f && !r) &&
		p.PairedPredicat(Xor)(a) == (f != r)
	vAssert(ok, "paired-modes-truth-tables")
	// a record without mate is judged on itself in every mode
	ok = true
	for m := ForwardOnly; m <= Xor; m++ {
		ok = ok && p.PairedPredicat(m)(single) == v[0][2]
	}
	vAssert(ok, "paired-modes-unpaired-record")
	vAssert(p.PredicateOnPaired(true)(a) == r && p.PredicateOnPaired(true)(single) && !p.PredicateOnPaired(false)(single), "predicate-on-paired")
	vAssert(null.PairedPredicat(And) == nil && null.PredicateOnPaired(true) == nil, "paired-nil")
	vReach("end")
}
