package obiapat

import "git.metabarcoding.org/obitools/obitools4/obitools4/pkg/obiseq"

// C11 (pairing logic of the in-silico PCR).  The primer matcher is C code: no engine for it here.  The template
// is symbolic; the positions where the four primer patterns match are concrete per instance (a catalogue of
// geometries) and the template is ASSUMED to hold the primers exactly at those positions and nowhere else, so
// that the native replay - which runs the real matcher on the replayed template - sees the same hits.
// Primers: forward "acg" (complement "cgt"), reverse "tta" (complement "taa"); no mismatch allowed.

//verif:stub (MOD/pkg/obiapat.ApatPattern).FindAllIndex = vFindAllIndex
//verif:stub (MOD/pkg/obiapat.ApatPattern).Len = vPatLen
//verif:stub (MOD/pkg/obiapat.ApatSequence).Len = vSeqLen

const vDefaultL = 12

type vGeometry struct {
	fwd, crev, rev, cfwd []int // start positions of the exact matches of acg, taa, tta, cgt
	L                    int   // template length (0: 12)
}

var vGeometries = []vGeometry{
	{fwd: []int{0}, crev: []int{6}},                                // 0 one amplicon, direct
	{rev: []int{1}, cfwd: []int{8}},                                // 1 one amplicon, reverse orientation
	{fwd: []int{0, 4}, crev: []int{9}},                             // 2 two forward sites, one reverse site
	{fwd: []int{1}, crev: []int{5, 9}},                             // 3 one forward site, two reverse sites
	{fwd: []int{0}, crev: []int{3}},                                // 4 primers touching (empty barcode)
	{fwd: []int{6}, crev: []int{1}},                                // 5 reverse site upstream of the forward site: nothing
	{fwd: []int{0}, crev: []int{8}, rev: []int{4}, cfwd: []int{}},  // 6 a reverse-primer site inside, no partner
	{fwd: []int{0}, crev: []int{5}, rev: []int{8}, cfwd: []int{}},  // 7
	{fwd: []int{0}, crev: []int{9}, rev: []int{3}, cfwd: []int{6}}, // 8 both orientations
	{},                              // 9 no site at all
	{fwd: []int{2}},                 // 10 forward site only
	{fwd: []int{0}, crev: []int{9}}, // 11 amplicon touching the end of the template
	// long templates: the window in which the second primer is searched reaches 64 positions further than asked
	{fwd: []int{0, 72}, crev: []int{80}, L: 90},  // 12 second locus far behind the first forward site
	{rev: []int{1, 74}, cfwd: []int{83}, L: 90},  // 13 the same in reverse orientation
	{fwd: []int{3}, crev: []int{84}, L: 90},      // 14 one long amplicon (beyond every max-length bound)
}

var (
	vCurGeo    vGeometry
	vPatFwd    = &_ApatPattern{pattern: "acg"}
	vPatCfwd   = &_ApatPattern{pattern: "cgt"}
	vPatRev    = &_ApatPattern{pattern: "tta"}
	vPatCrev   = &_ApatPattern{pattern: "taa"}
	vRefLength int
)

func vPatLen(pattern ApatPattern) int { return 3 }

func vSeqLen(sequence ApatSequence) int { return vRefLength }

func vFindAllIndex(pattern ApatPattern, sequence ApatSequence, begin, length int) [][3]int {
	var pos []int
	switch pattern.pointer {
	case vPatFwd:
		pos = vCurGeo.fwd
	case vPatCfwd:
		pos = vCurGeo.cfwd
	case vPatRev:
		pos = vCurGeo.rev
	case vPatCrev:
		pos = vCurGeo.crev
	}
	if begin < 0 {
		begin = 0
	}
	if length < 0 {
		length = vRefLength
	}
	var loc [][3]int
	for _, p := range pos {
		if p >= begin && p < begin+length+_MaxPatLen {
			loc = append(loc, [3]int{p, p + 3, 0})
		}
	}
	return loc
}

func vHas(set []int, p int) bool {
	for _, x := range set {
		if x == p {
			return true
		}
	}
	return false
}

func vMatchAt(s []byte, p int, pat string) bool {
	return s[p] == pat[0] && s[p+1] == pat[1] && s[p+2] == pat[2]
}

func vrc(s []byte) []byte {
	r := make([]byte, len(s))
	for i := range s {
		c := s[len(s)-1-i]
		switch c {
		case 'a':
			c = 't'
		case 'c':
			c = 'g'
		case 'g':
			c = 'c'
		case 't':
			c = 'a'
		}
		r[i] = c
	}
	return r
}

func vSame(a []byte, b []byte) bool {
	if len(a) != len(b) {
		return false
	}
	ok := true
	for i := range a {
		ok = ok && a[i] == b[i]
	}
	return ok
}

type vAmp struct {
	seq       []byte
	direction string
	fwdMatch  []byte
	revMatch  []byte
}

// geo: index in vGeometries; ext: -1 none, >= 0 flank length; full: only complete flanks
func VerifC11_Pcr(geo, ext, full int) {
	if geo < 0 || geo >= len(vGeometries) {
		vSkip()
	}
	g := vGeometries[geo]
	vL := g.L
	if vL == 0 {
		vL = vDefaultL
	}
	s := vBytes(vL, "acgt")
	minLen, maxLen := vInt(0, 8), vInt(0, 8)
	// the template holds each primer exactly at the sites of the geometry
	for p := 0; p+3 <= vL; p++ {
		vAssume(vMatchAt(s, p, "acg") == vHas(g.fwd, p))
		vAssume(vMatchAt(s, p, "taa") == vHas(g.crev, p))
		vAssume(vMatchAt(s, p, "tta") == vHas(g.rev, p))
		vAssume(vMatchAt(s, p, "cgt") == vHas(g.cfwd, p))
	}
	template := obiseq.NewBioSequence("t", s, "")
	var results obiseq.BioSequenceSlice
	if vSymbolic() {
		vCurGeo, vRefLength = g, vL
		opt := Options{&_Options{minLength: minLen, maxLength: maxLen, extension: ext, fullExtension: full == 1,
			forward: ApatPattern{vPatFwd}, cfwd: ApatPattern{vPatCfwd}, reverse: ApatPattern{vPatRev}, crev: ApatPattern{vPatCrev}}}
		results = _Pcr(ApatSequence{&_ApatSequence{reference: template}}, opt)
	} else {
		opts := []WithOption{OptionForwardPrimer("acg", 0), OptionReversePrimer("tta", 0), OptionMinLength(minLen), OptionMaxLength(maxLen)}
		if ext >= 0 {
			opts = append(opts, OptionWithExtension(ext), OptionOnlyFullExtension(full == 1))
		}
		results = PCRSim(template, opts...)
	}
	// expected amplicons, in the order the pairs are met
	var want []vAmp
	add := func(f, r int, direct bool) {
		// f: start of the upstream site, r: start of the downstream site
		length := r - (f + 3)
		if r+3 <= f || length <= 0 {
			return
		}
		if (minLen != 0 && length < minLen) || (maxLen != 0 && length > maxLen) {
			return
		}
		from, to := f+3, r
		if ext >= 0 {
			from, to = f-ext, r+3+ext
			if full == 1 {
				if from < 0 || to > vL {
					return
				}
			} else {
				if from < 0 {
					from = 0
				}
				if to > vL {
					to = vL
				}
			}
		}
		seg := s[from:to]
		up, down := s[f:f+3], s[r:r+3]
		if direct {
			want = append(want, vAmp{seg, "forward", up, vrc(down)})
		} else {
			want = append(want, vAmp{vrc(seg), "reverse", vrc(down), up})
		}
	}
	for _, f := range g.fwd {
		for _, r := range g.crev {
			add(f, r, true)
		}
	}
	for _, f := range g.rev {
		for _, r := range g.cfwd {
			add(f, r, false)
		}
	}
	vAssert(len(results) == len(want), "pcr-one-amplicon-per-valid-pair-of-sites")
	if len(results) == len(want) {
		ok := true
		for i, w := range want {
			a := results[i]
			ok = ok && vSame(a.Sequence(), w.seq)
			d, _ := a.GetStringAttribute("direction")
			ok = ok && d == w.direction
			fm, _ := a.GetStringAttribute("forward_match")
			rm, _ := a.GetStringAttribute("reverse_match")
			ok = ok && vSame([]byte(fm), w.fwdMatch) && vSame([]byte(rm), w.revMatch)
			fe, _ := a.GetIntAttribute("forward_error")
			re, _ := a.GetIntAttribute("reverse_error")
			ok = ok && fe == 0 && re == 0
		}
		vAssert(ok, "pcr-amplicon-sequence-orientation-and-matches")
	}
	if len(want) > 0 {
		vReach("some-amplicon")
	}
	vReach("end")
}
