package obingslibrary

import "git.metabarcoding.org/obitools/obitools4/obitools4/pkg/obiseq"

// C12 (Go logic of obimultiplex): tag distances, unique-nearest-tag search for every iteration order of the
// sample table, sample identification safety, fixed-position tag extraction.  Primer search (C code) is not
// part of these checks.

func vrHamming(a, b []byte) int {
	if len(a) != len(b) {
		if len(a) > len(b) {
			return len(a)
		}
		return len(b)
	}
	n := 0
	for i := range a {
		if a[i] != b[i] {
			n++
		}
	}
	return n
}

func vrLevenshtein(a, b []byte) int {
	n, m := len(a), len(b)
	D := make([]int, (n+1)*(m+1))
	w := m + 1
	for j := 0; j <= m; j++ {
		D[j] = j
	}
	for i := 0; i <= n; i++ {
		D[i*w] = i
	}
	for i := 1; i <= n; i++ {
		for j := 1; j <= m; j++ {
			d := D[(i-1)*w+j-1]
			if a[i-1] != b[j-1] {
				d++
			}
			if x := D[(i-1)*w+j] + 1; x < d {
				d = x
			}
			if x := D[i*w+j-1] + 1; x < d {
				d = x
			}
			D[i*w+j] = d
		}
	}
	return D[n*w+m]
}

func VerifC12_Distances(la, lb int) {
	a, b := vBytes(la, "acgt"), vBytes(lb, "acgt")
	vAssert(Hamming(string(a), string(b)) == vrHamming(a, b), "tag-hamming")
	vAssert(Levenshtein(string(a), string(b)) == vrLevenshtein(a, b), "tag-levenshtein")
	vAssert(Levenshtein(string(a), string(b)) == Levenshtein(string(b), string(a)), "tag-levenshtein-symmetric")
	vReach("end")
}

var vPerms3 = [][3]int{{0, 1, 2}, {0, 2, 1}, {1, 0, 2}, {1, 2, 0}, {2, 0, 1}, {2, 1, 0}}

func vEq(a, b []byte) bool {
	if len(a) != len(b) {
		return false
	}
	ok := true
	for i := range a {
		ok = ok && a[i] == b[i]
	}
	return ok
}

// three samples with symbolic 2-base tags (distinct pairs), inserted in the order perm: the table is a Go map,
// so every insertion order stands for a possible iteration order
func vMarker(perm int, fm, rm string) (*Marker, [3][]byte, [3][]byte, [3]*PCR) {
	var f, r [3][]byte
	var pcrs [3]*PCR
	for i := 0; i < 3; i++ {
		f[i], r[i] = vBytes(2, "ac"), vBytes(2, "ac")
		pcrs[i] = &PCR{Experiment: "e", Sample: string([]byte{byte('A' + i)})}
	}
	for i := 0; i < 3; i++ {
		for j := 0; j < i; j++ {
			vAssume(!(vEq(f[i], f[j]) && vEq(r[i], r[j])))
		}
	}
	m := &Marker{Forward_tag_length: 2, Reverse_tag_length: 2, Forward_matching: fm, Reverse_matching: rm,
		samples: make(map[TagPair]*PCR)}
	p := vPerms3[perm]
	for _, i := range p {
		m.samples[TagPair{string(f[i]), string(r[i])}] = pcrs[i]
	}
	return m, f, r, pcrs
}

func vModeName(k int) string {
	switch k {
	case 0:
		return "strict"
	case 1:
		return "hamming"
	case 2:
		return "indel"
	}
	vSkip()
	return ""
}

// expected unique nearest tag among tags t[0..2] for query q under dist; nil when the minimum is shared by
// two different tags
func vrNearest(t [3][]byte, q []byte, lev bool) ([]byte, int) {
	d := [3]int{}
	best := 1 << 30
	for i := 0; i < 3; i++ {
		if lev {
			d[i] = vrLevenshtein(t[i], q)
		} else {
			d[i] = vrHamming(t[i], q)
		}
		if d[i] < best {
			best = d[i]
		}
	}
	var res []byte
	amb := false
	for i := 0; i < 3; i++ {
		if d[i] == best {
			if res == nil {
				res = t[i]
			} else if !vEq(res, t[i]) {
				amb = true
			}
		}
	}
	if amb {
		return nil, best
	}
	return res, best
}

func VerifC12_Closest(perm, lev, lq int) {
	if perm < 0 || perm > 5 || lq < 1 {
		vSkip()
	}
	m, f, r, _ := vMarker(perm, "hamming", "hamming")
	q := vBytes(lq, "ac")
	dist := Hamming
	if lev == 1 {
		dist = Levenshtein
	}
	gotF, dF := m.ClosestForwardTag(string(q), dist)
	wantF, wdF := vrNearest(f, q, lev == 1)
	vAssert(dF == wdF && ((wantF == nil && gotF == "") || (wantF != nil && gotF == string(wantF))), "closest-forward-tag-is-the-unique-nearest")
	gotR, dR := m.ClosestReverseTag(string(q), dist)
	wantR, wdR := vrNearest(r, q, lev == 1)
	vAssert(dR == wdR && ((wantR == nil && gotR == "") || (wantR != nil && gotR == string(wantR))), "closest-reverse-tag-is-the-unique-nearest")
	vReach("end")
}

// a read is assigned to sample S only if the pair (proposed forward, proposed reverse) is S's declared pair and
// each proposed tag is the read's tag itself (strict) or its unique nearest declared tag; otherwise no sample
// and the error annotation
func VerifC12_SampleIdentifier(perm, fmode, rmode int) {
	if perm < 0 || perm > 5 {
		vSkip()
	}
	m, f, r, pcrs := vMarker(perm, vModeName(fmode), vModeName(rmode))
	lib := MakeNGSLibrary()
	pp := PrimerPair{"ffff", "rrrr"}
	lib.Markers[pp] = m
	tf, tr := vBytes(2, "ac"), vBytes(2, "ac")
	annot := obiseq.Annotation{}
	got := lib.SampleIdentifier(pp, &TagPair{string(tf), string(tr)}, annot)
	// expected proposed tags
	pf, pr := tf, tr
	if fmode != 0 {
		pf, _ = vrNearest(f, tf, fmode == 2)
	}
	if rmode != 0 {
		pr, _ = vrNearest(r, tr, rmode == 2)
	}
	var want *PCR
	for i := 0; i < 3; i++ {
		if pf != nil && pr != nil && vEq(pf, f[i]) && vEq(pr, r[i]) {
			want = pcrs[i]
		}
	}
	vAssert(got == want, "sample-identifier-assigns-exactly-the-declared-pair")
	_, hasErr := annot["obimultiplex_error"]
	_, hasSample := annot["sample"]
	vAssert(hasErr == (want == nil) && hasSample == (want != nil), "sample-identifier-error-annotation-iff-no-sample")
	vReach("end")
}

// fixed-position tags.  On a read in forward orientation the tag before the forward primer is the forward tag
// (forward length and spacer) and the tag after the reverse primer is the reverse tag; on a read in reverse
// orientation the roles are exchanged.  The begin tag is seq[begin-spacer-len : begin-spacer]; the end tag is
// the reverse complement of seq[end+spacer : end+spacer+len]; nothing when the read is too short.  Forward and
// reverse tags have different lengths (2, 3) and spacers (fsp, rsp); the orientation is symbolic.
func VerifC12_FixedTags(L, begin, end, fsp, rsp int) {
	if begin < 0 || begin > end || end > L {
		vSkip()
	}
	forward := vBool()
	s := vBytes(L, "acgt")
	seq := obiseq.NewBioSequence("r", s, "")
	m := &Marker{Forward_tag_length: 2, Reverse_tag_length: 3, Forward_spacer: fsp, Reverse_spacer: rsp}
	bl, bsp, el, esp := 2, fsp, 3, rsp
	if !forward {
		bl, bsp, el, esp = 3, rsp, 2, fsp
	}
	ft := m.beginFixedTagExtractor(seq, begin, forward)
	if begin-bsp-bl < 0 {
		vAssert(ft == "", "fixed-forward-tag-absent-when-read-too-short")
	} else {
		ok := len(ft) == bl
		if ok {
			for i := 0; i < bl; i++ {
				ok = ok && ft[i] == s[begin-bsp-bl+i]
			}
		}
		vAssert(ok, "fixed-forward-tag-window")
	}
	rt := m.endFixedTagExtractor(seq, end, forward)
	if end+esp+el > L {
		vAssert(rt == "", "fixed-reverse-tag-absent-when-read-too-short")
	} else {
		comp := func(c byte) byte {
			switch c {
			case 'a':
				return 't'
			case 'c':
				return 'g'
			case 'g':
				return 'c'
			}
			return 'a'
		}
		ok := len(rt) == el
		if ok {
			for i := 0; i < el; i++ {
				ok = ok && rt[i] == comp(s[end+esp+el-1-i])
			}
		}
		vAssert(ok, "fixed-reverse-tag-is-revcomp-of-window")
	}
	vReach("end")
}

// CheckTagLength: the tag lengths of a marker are those of its samples' tags - forward and reverse
// independently, absent tags (length 0) included; samples that disagree are refused
func VerifC12_TagLength(lf, lr, lf2, lr2 int) {
	tagsF := vBytes(lf, "ac")
	tagsR := vBytes(lr, "ac")
	m := &Marker{samples: map[TagPair]*PCR{}}
	m.samples[TagPair{Forward: string(tagsF), Reverse: string(tagsR)}] = &PCR{}
	other := TagPair{Forward: string(append(make([]byte, 0), []byte("ggggg")[:lf2]...)), Reverse: string([]byte("ttttt")[:lr2])}
	m.samples[other] = &PCR{}
	err := m.CheckTagLength()
	if lf == lf2 && lr == lr2 {
		vAssert(err == nil && m.Forward_tag_length == lf && m.Reverse_tag_length == lr, "taglength-forward-and-reverse-lengths-are-those-of-the-samples")
	} else {
		vAssert(err != nil, "taglength-samples-with-different-tag-lengths-are-refused")
	}
	vReach("end")
}
