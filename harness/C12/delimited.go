package obingslibrary

// C12 (safety of the delimiter-based tag extraction): whatever the read fragment, lookForTag and
// lookForRescueTag never index outside it, and what they return is a piece of the fragment that can be a tag:
// free of delimiters (lookForTag) / of a length within the declared indel tolerance (lookForRescueTag).

func vIsSubstring(seq, sub string) bool {
	if len(sub) == 0 {
		return true
	}
	found := false
	for p := 0; p+len(sub) <= len(seq); p++ {
		ok := true
		for k := 0; k < len(sub); k++ {
			ok = ok && seq[p+k] == sub[k]
		}
		found = found || ok
	}
	return found
}

// n: fragment length; the delimiter is 'n'
func VerifC12_LookForTag(n int) {
	seq := string(vBytes(n, "acn"))
	var tag string
	k := vCatch(func() { tag = lookForTag(seq, 'n') })
	vAssert(k == 0, "lookfortag-no-panic")
	if k != 0 {
		return
	}
	clean := true
	for i := 0; i < len(tag); i++ {
		clean = clean && tag[i] != 'n'
	}
	vAssert(clean && vIsSubstring(seq, tag), "lookfortag-result-is-a-delimiter-free-piece-of-the-fragment")
	// a fragment "n <tag> n <border>" with a delimiter-free tag and border gives that tag
	vReach("end")
}

// the canonical layout: delimiter run, tag, delimiter run, border -> the tag
func VerifC12_LookForTagCanonical(d1, lt, d2, lb int) {
	if d1 < 1 || lt < 1 || d2 < 1 {
		vSkip()
		return
	}
	tag := vBytes(lt, "ac")
	border := vBytes(lb, "ac")
	var s []byte
	for i := 0; i < d1; i++ {
		s = append(s, 'n')
	}
	s = append(s, tag...)
	for i := 0; i < d2; i++ {
		s = append(s, 'n')
	}
	s = append(s, border...)
	got := lookForTag(string(s), 'n')
	ok := len(got) == lt
	if ok {
		for i := range tag {
			ok = ok && got[i] == tag[i]
		}
	}
	vAssert(ok, "lookfortag-canonical-layout-gives-the-tag")
	vReach("end")
}

// n: fragment length; taglength, border, indel symbolic small values with indel < taglength (a tolerance as
// long as the tag itself is not a meaningful declaration)
func VerifC12_RescueTag(n int) {
	taglength, border, indel := vInt(1, 3), vInt(0, 2), vInt(0, 2)
	seq := string(vBytes(n, "acn"))
	vAssume(indel < taglength)
	var tag string
	k := vCatch(func() { tag = lookForRescueTag(seq, 'n', taglength, border, indel) })
	vAssert(k == 0, "rescuetag-no-panic")
	if k != 0 {
		return
	}
	d := len(tag) - taglength
	if d < 0 {
		d = -d
	}
	vAssert(len(tag) == 0 || (d <= indel && vIsSubstring(seq, tag)), "rescuetag-result-is-a-piece-of-the-fragment-of-tolerated-length")
	vReach("end")
}
