package obiformats

import (
	"encoding/json"

	"git.metabarcoding.org/obitools/obitools4/obitools4/pkg/obiiter"
	"git.metabarcoding.org/obitools/obitools4/obitools4/pkg/obiseq"
)

// C04 / C18: the JSON and CSV writers, driven through WriteJSON / WriteCSV with one formatting worker: the
// batches of the input iterator arrive in an arbitrary (symbolic) order, some of them empty.  The record
// formatters (go-json, encoding/csv: reflection / large library code) are replaced by one token per record, so
// what is decided is the framing: a single JSON array with one element per record in order; one CSV header
// line then one row per record in order.  The native replay uses the real formatters and a real JSON / CSV
// parse of the output.

//verif:stub MOD/pkg/obiformats.JSONRecord = vJSONRecord
//verif:stub MOD/pkg/obiformats.FormatCVSBatch = vFormatCSVBatch

func vJSONRecord(sequence *obiseq.BioSequence) []byte {
	return []byte{sequence.Id()[0]}
}

// header line "H\n" for batch 0, then one line per record
func vFormatCSVBatch(batch obiiter.BioSequenceBatch, opt Options) []byte {
	var out []byte
	if batch.Order() == 0 {
		out = append(out, 'H', '\n')
	}
	for _, s := range batch.Slice() {
		out = append(out, s.Id()[0], '\n')
	}
	return out
}

// n batches, batch i holds digit i (base 3) of pattern records; record ids are single letters a, b, c, ...
func vMakeIterator(n, pattern int, arrival []int) (obiiter.IBioSequence, []byte) {
	var batches []obiiter.BioSequenceBatch
	var ids []byte
	next := byte('a')
	for i := 0; i < n; i++ {
		sz := pattern % 3
		pattern /= 3
		sl := obiseq.MakeBioSequenceSlice()
		for k := 0; k < sz; k++ {
			sl = append(sl, obiseq.NewBioSequence(string([]byte{next}), []byte("acgt"), ""))
			ids = append(ids, next)
			next++
		}
		batches = append(batches, obiiter.MakeBioSequenceBatch("src", i, sl))
	}
	it := obiiter.MakeIBioSequence()
	it.Add(1)
	go func() { it.WaitAndClose() }()
	go func() {
		for j := range arrival {
			it.Push(batches[arrival[j]])
		}
		it.Done()
	}()
	return it, ids
}

func VerifC04_JSONWriter(n, pattern int) {
	arrival := vPermutation(n)
	it, ids := vMakeIterator(n, pattern, arrival)
	w := &vWriter{failAt: -1}
	out, err := WriteJSON(it, w, OptionsParallelWorkers(1), OptionCloseFile())
	vAssert(err == nil, "json-writer-starts")
	kind := vCatch(func() {
		for out.Next() {
		}
		vRunPending()
	})
	vAssert(kind == 0, "json-writer-terminates-normally")
	if vSymbolic() {
		// one array: '[', the record tokens in order separated by single commas, ']' - white space apart, so
		// that a change of layout that keeps the text valid JSON is not taken for a defect
		want := []byte{'['}
		for i, id := range ids {
			if i > 0 {
				want = append(want, ',')
			}
			want = append(want, id)
		}
		want = append(want, ']')
		k := 0
		ok := true
		for _, c := range w.data {
			if c == ' ' || c == '\n' || c == '\t' || c == '\r' {
				continue
			}
			ok = ok && k < len(want) && c == want[k]
			k++
		}
		ok = ok && k == len(want)
		vAssert(ok, "json-output-is-one-array-with-one-element-per-record-in-order")
	} else {
		var recs []map[string]interface{}
		ok := json.Unmarshal(w.data, &recs) == nil && len(recs) == len(ids)
		if ok {
			for i, r := range recs {
				s, _ := r["id"].(string)
				ok = ok && s == string([]byte{ids[i]})
			}
		}
		vAssert(ok, "json-output-is-one-array-with-one-element-per-record-in-order")
	}
	vAssert(w.closed == 1 && w.afterClose == 0, "json-output-closed-once-after-the-last-write")
	vAssert(!w.doneBeforeClose, "json-writer-does-not-announce-completion-before-the-output-is-closed")
	vReach("end")
}

func VerifC04_CSVWriter(n, pattern int) {
	arrival := vPermutation(n)
	it, ids := vMakeIterator(n, pattern, arrival)
	w := &vWriter{failAt: -1}
	out, err := WriteCSV(it, w, OptionsParallelWorkers(1), OptionCloseFile())
	vAssert(err == nil, "csv-writer-starts")
	kind := vCatch(func() {
		for out.Next() {
		}
		vRunPending()
	})
	vAssert(kind == 0, "csv-writer-terminates-normally")
	if vSymbolic() {
		want := []byte{'H', '\n'}
		for _, id := range ids {
			want = append(want, id, '\n')
		}
		ok := len(w.data) == len(want)
		if ok {
			for i := range want {
				ok = ok && w.data[i] == want[i]
			}
		}
		vAssert(ok, "csv-output-is-one-header-then-one-row-per-record-in-order")
	} else {
		lines := 0
		for _, c := range w.data {
			if c == '\n' {
				lines++
			}
		}
		vAssert(lines == len(ids)+1, "csv-output-is-one-header-then-one-row-per-record-in-order")
	}
	vAssert(w.closed == 1 && w.afterClose == 0, "csv-output-closed-once-after-the-last-write")
	vAssert(!w.doneBeforeClose, "csv-writer-does-not-announce-completion-before-the-output-is-closed")
	vReach("end")
}

// C18: the output of the JSON / CSV writers fails (the k-th write of the underlying stream, or its Close):
// the failure must end in a fatal report, for every arrival order of the batches.
func VerifC18_JSONWriter(n, pattern, csv int) {
	arrival := vPermutation(n)
	failAt, closeFails := vInt(-1, 2), vBool()
	it, _ := vMakeIterator(n, pattern, arrival)
	w := &vWriter{failAt: failAt, closeFails: closeFails}
	kind := vCatch(func() {
		var out obiiter.IBioSequence
		if csv == 1 {
			out, _ = WriteCSV(it, w, OptionsParallelWorkers(1), OptionCloseFile())
		} else {
			out, _ = WriteJSON(it, w, OptionsParallelWorkers(1), OptionCloseFile())
		}
		for out.Next() {
		}
		vRunPending()
	})
	// the fault is real only if the failing write was attempted
	hit := (failAt >= 0 && w.nWrites > failAt) || (closeFails && w.closed > 0)
	vAssert(!hit || kind == 2, "writer-output-fault-is-fatal")
	vAssert(hit || kind == 0, "writer-no-fault-no-error")
	vAssert(!w.doneBeforeClose, "writer-completion-is-not-announced-before-a-close-that-may-fail")
	if hit {
		vReach("faulty")
	}
	vReach("end")
}
