package obiformats

import (
	"bytes"
	"errors"

	"git.metabarcoding.org/obitools/obitools4/obitools4/pkg/obiiter"
)

// C04 / C18: the re-sequencing writer loops, driven through their constructors.  The goroutine they start is a
// pending task of the symbolic run; the chunks are sent by a second task in an arbitrary (symbolic) arrival
// order; some chunks may be empty.  The output stream is a harness writer that records every call and can
// fail at an arbitrary (symbolic) write.

var vErrDisk = errors.New("no space left on device")

type vWriter struct {
	data         []byte
	nWrites      int
	failAt       int // index of the Write call that fails (-1: never)
	closed       int
	afterClose   int
	closeFails   bool
	lostSilently bool
	// the writer announced its completion (obiiter.WaitForLastPipe would return, a command's main would exit)
	// although the output was not closed yet
	doneBeforeClose bool
}

func (w *vWriter) Write(p []byte) (int, error) {
	idx := w.nWrites
	w.nWrites++
	if w.closed > 0 {
		w.afterClose++
	}
	if idx == w.failAt {
		return 0, vErrDisk
	}
	w.data = append(w.data, p...)
	return len(p), nil
}

func (w *vWriter) Close() error {
	if !vBlocks(func() { obiiter.WaitForLastPipe() }) {
		w.doneBeforeClose = true
	}
	w.closed++
	if w.closeFails {
		return vErrDisk
	}
	return nil
}

// a symbolic permutation of 0..n-1
func vPermutation(n int) []int {
	o := vInts(n)
	for i := 0; i < n; i++ {
		vAssume(o[i] >= 0 && o[i] < n)
		for j := 0; j < i; j++ {
			vAssume(o[i] != o[j])
		}
	}
	return o
}

// chunk k carries the single byte 'a'+k, or nothing when it is empty
func vChunkText(k int, empty bool) []byte {
	if empty {
		return []byte{}
	}
	return []byte{byte('a' + k)}
}

// C04: every arrival order of n chunks, every subset of empty chunks: each chunk written once, in increasing
// order, output closed exactly once after the last write.
func VerifC04_ChunkWriter(n int) {
	orders := vPermutation(n)
	empty := make([]bool, n)
	for i := range empty {
		empty[i] = vBool()
	}
	w := &vWriter{failAt: -1}
	ch := WriteSeqFileChunk(w, true)
	go func() {
		for j := 0; j < n; j++ {
			k := orders[j]
			e := false
			for i := 0; i < n; i++ {
				if i == k {
					e = empty[i]
				}
			}
			ch <- SeqFileChunk{"s", bytes.NewBuffer(vChunkText(k, e)), k}
		}
		close(ch)
	}()
	kind := vCatch(func() { vRunPending() })
	vAssert(kind == 0, "chunk-writer-terminates-normally")
	want := make([]byte, 0, n)
	for k := 0; k < n; k++ {
		if !empty[k] {
			want = append(want, byte('a'+k))
		}
	}
	ok := len(w.data) == len(want)
	if ok {
		for i := range want {
			ok = ok && w.data[i] == want[i]
		}
	}
	vAssert(ok, "chunk-writer-each-chunk-once-in-order")
	vAssert(w.closed == 1 && w.afterClose == 0, "chunk-writer-closed-once-after-last-write")
	vAssert(!w.doneBeforeClose, "chunk-writer-does-not-announce-completion-before-the-output-is-closed")
	vReach("end")
}

// C18: a write that fails (any write index, any arrival order) or a failing Close is reported as a fatal error;
// the loop never ends normally with bytes lost.
func VerifC18_ChunkWriter(n int) {
	orders := vPermutation(n)
	w := &vWriter{failAt: vInt(-1, n-1), closeFails: vBool()}
	ch := WriteSeqFileChunk(w, true)
	go func() {
		for j := 0; j < n; j++ {
			k := orders[j]
			ch <- SeqFileChunk{"s", bytes.NewBuffer(vChunkText(k, false)), k}
		}
		close(ch)
	}()
	kind := vCatch(func() { vRunPending() })
	faulty := w.failAt >= 0 || w.closeFails
	vAssert(!faulty || kind == 2, "chunk-writer-output-fault-is-fatal")
	vAssert(faulty || kind == 0, "chunk-writer-no-fault-no-error")
	vAssert(!w.doneBeforeClose, "chunk-writer-completion-is-not-announced-before-a-close-that-may-fail")
	if faulty {
		vReach("faulty")
	}
	vReach("end")
}
