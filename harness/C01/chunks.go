package obiformats

import (
	"errors"
	"io"
)

// C01 (2) / C17: the carry-over loop of ReadSeqFileChunk, driven through its constructor with the real FASTA
// splitter, on a harness reader: F symbolic bytes delivered `step` bytes per Read (short reads are allowed by
// the io.Reader contract), then an end-of-stream condition.

var vErrCorrupt = errors.New("gzip: invalid checksum")

type vReader struct {
	data   []byte
	pos    int
	step   int
	endErr error
	// the io.Reader contract also allows the error to come together with the last bytes and not to be
	// repeated: the next call then reports a clean end of file
	errWithData bool
	errGiven    bool
}

func (r *vReader) Read(p []byte) (int, error) {
	if r.pos >= len(r.data) {
		if r.errWithData && r.errGiven {
			return 0, io.EOF
		}
		r.errGiven = true
		return 0, r.endErr
	}
	n := len(p)
	if r.step < n {
		n = r.step
	}
	if len(r.data)-r.pos < n {
		n = len(r.data) - r.pos
	}
	copy(p[:n], r.data[r.pos:r.pos+n])
	r.pos += n
	if r.errWithData && r.pos >= len(r.data) && r.endErr != nil && n > 0 {
		r.errGiven = true
		return n, r.endErr
	}
	return n, nil
}

type vChunk struct {
	order int
	text  []byte
}

func vReadAll(r io.Reader, bufSize int) []vChunk {
	var out []vChunk
	for c := range ReadSeqFileChunk("src", r, make([]byte, bufSize), EndOfLastFastaEntry) {
		out = append(out, vChunk{c.Order, c.Raw.Bytes()})
	}
	return out
}

// C01: a complete well-formed FASTA file of F bytes, every buffer size S, every read granularity: the chunks
// are numbered 0,1,2..., none is empty, each starts at a record start and ends at a record end, and put end to
// end (with the end-of-line characters stripped between them) they are the file.
func VerifC01_ChunkLoop(F, S, step int) {
	if S < 2 || step < 1 {
		vSkip()
	}
	file := vBytes(F, ">\nAx")
	starts := make([]bool, F)
	vAssume(vrFasta(file, starts))
	vAssume(file[F-1] == 'A' || file[F-1] == '\n') // the file ends inside or after a sequence line
	complete := false
	for k := 0; k < F; k++ { // at least header + one base
		complete = complete || (file[k] == '\n' && k+1 < F && file[k+1] == 'A')
	}
	vAssume(complete)
	var chunks []vChunk
	kind := vCatch(func() { chunks = vReadAll(&vReader{data: file, step: step, endErr: io.EOF}, S) })
	vAssert(kind == 0, "chunk-loop-clean-end-of-file-is-not-an-error")
	if kind != 0 {
		return
	}
	pos := 0
	ok := len(chunks) > 0
	for i, c := range chunks {
		ok = ok && c.order == i && len(c.text) > 0
		ok = ok && pos < F && starts[pos] && pos+len(c.text) <= F
		if !ok {
			break
		}
		for k := range c.text {
			ok = ok && c.text[k] == file[pos+k]
		}
		pos += len(c.text)
		// a chunk ends where a record ends: only end-of-line characters up to the next record start / end of file
		for pos < F && file[pos] == '\n' {
			pos++
		}
		ok = ok && (pos == F || starts[pos])
	}
	vAssert(ok && pos == F, "chunk-loop-chunks-are-whole-records-in-file-order")
	if len(chunks) > 1 {
		vReach("several-chunks")
	}
	vReach("end")
}

// C17: the stream ends with an error other than a clean end of file - a truncated compressed stream reports
// io.ErrUnexpectedEOF, a corrupted one any other error - after an arbitrary prefix of a well-formed file:
// the reader must end in a fatal report, never in a normal close of the channel.
func VerifC17_ReadError(F, S, step, errKind int) {
	if S < 2 || step < 1 || errKind < 1 || errKind > 4 {
		vSkip()
	}
	file := vBytes(F, ">\nAx")
	starts := make([]bool, F)
	vAssume(vrFasta(file, starts))
	end := io.ErrUnexpectedEOF
	if errKind == 2 || errKind == 4 {
		end = vErrCorrupt
	}
	// errKind 3, 4: the error arrives with the last bytes, afterwards the stream says io.EOF
	kind := vCatch(func() { vReadAll(&vReader{data: file, step: step, endErr: end, errWithData: errKind >= 3}, S) })
	vAssert(kind == 2, "read-error-is-fatal")
	vReach("end")
}
