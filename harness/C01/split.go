package obiformats

// C01 (1): the three backward record splitters, on every buffer of n bytes that is a prefix of a well-formed
// file (forward reference automata below).  A non-negative answer must be a position where a record starts,
// so that cutting the stream there never splits a record - whatever the header or the quality line contains.

// strict 4-line FASTQ; header: any byte but EOL; sequence: letters; quality: any byte but space/EOL, as long
// as the sequence.  Returns whether buf is a prefix of a well-formed file and marks the record starts.
func vrFastq(buf []byte, starts []bool) bool {
	st, sl, ql := 0, 0, 0
	bad := false
	for k := 0; k < len(buf); k++ {
		c := buf[k]
		nl := c == '\n'
		starts[k] = st == 0 && c == '@'
		switch st {
		case 0:
			if c == '@' {
				st, sl, ql = 1, 0, 0
			} else {
				bad = true
			}
		case 1:
			if nl {
				st = 2
			}
		case 2:
			if c == 'A' {
				st, sl = 3, 1
			} else {
				bad = true
			}
		case 3:
			if nl {
				st = 4
			} else if c == 'A' {
				sl++
			} else {
				bad = true
			}
		case 4:
			if c == '+' {
				st = 5
			} else {
				bad = true
			}
		case 5:
			if nl {
				st = 6
			}
		case 6:
			if nl {
				if ql == sl {
					st = 0
				} else {
					bad = true
				}
			} else if c == ' ' {
				bad = true
			} else {
				ql++
			}
		}
	}
	return !bad
}

func VerifC01_FastqSplit(n int) {
	buf := vBytes(n, "@+\nAI 1")
	starts := make([]bool, n)
	vAssume(vrFastq(buf, starts))
	r := EndOfLastFastqEntry(buf)
	good := r == -1
	for k := 1; k < n; k++ {
		if r == k && starts[k] {
			good = true
		}
	}
	vAssert(good, "fastq-cut-is-a-record-start")
	if r >= 0 {
		vReach("nonnegative-answer")
		if r >= 2 && (buf[r-1] == '\n') {
			// what precedes the cut is a quality line: witnesses with '@' / '+' as its first character
			k := r - 2
			for k > 0 && buf[k-1] != '\n' {
				k--
			}
			if buf[k] == '@' {
				vReach("quality-line-starting-with-at")
			}
			if buf[k] == '+' {
				vReach("quality-line-starting-with-plus")
			}
		}
	}
	vReach("end")
}

// FASTA: '>' header EOL (sequence-line EOL)+ ; header: any byte but EOL (it may contain '>')
func vrFasta(buf []byte, starts []bool) bool {
	st := 0
	bad := false
	for k := 0; k < len(buf); k++ {
		c := buf[k]
		nl := c == '\n'
		starts[k] = (st == 0 || st == 4) && c == '>'
		switch st {
		case 0: // expect '>'
			if c == '>' {
				st = 1
			} else {
				bad = true
			}
		case 1: // header
			if nl {
				st = 2
			}
		case 2: // first sequence line: at least one base
			if c == 'A' {
				st = 3
			} else {
				bad = true
			}
		case 3: // inside a sequence line
			if nl {
				st = 4
			} else if c != 'A' {
				bad = true
			}
		case 4: // line start after a sequence line: new record or continuation
			if c == '>' {
				st = 1
			} else if c == 'A' {
				st = 3
			} else {
				bad = true
			}
		}
	}
	return !bad
}

func VerifC01_FastaSplit(n int) {
	buf := vBytes(n, ">\nAx ")
	starts := make([]bool, n)
	vAssume(vrFasta(buf, starts))
	r := EndOfLastFastaEntry(buf)
	good := r == -1
	for k := 1; k < n; k++ {
		if r == k && starts[k] {
			good = true
		}
	}
	vAssert(good, "fasta-cut-is-a-record-start")
	if r >= 0 {
		vReach("nonnegative-answer")
	}
	vReach("end")
}

// flat files (GenBank / EMBL): an entry ends with a line made of "//" exactly; the cut must be the position
// right after the end of such a line - for every buffer, no well-formedness needed
func VerifC01_FlatSplit(n int) {
	buf := vBytes(n, "/\n\rX ")
	r := EndOfLastFlatFileEntry(buf)
	good := r == -1
	if r >= 3 && r <= n && buf[r-1] == '\n' {
		e := r - 1 // index of '\n'
		if e >= 1 && buf[e-1] == '\r' {
			e--
		}
		if e >= 2 && buf[e-1] == '/' && buf[e-2] == '/' && (e-2 == 0 || buf[e-3] == '\n') {
			good = true
		}
	}
	vAssert(good, "flat-cut-follows-a-terminator-line")
	if r >= 0 {
		vReach("nonnegative-answer")
	}
	vReach("end")
}
