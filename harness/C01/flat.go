package obiformats

import (
	"bytes"

	"git.metabarcoding.org/obitools/obitools4/obitools4/pkg/obiseq"
)

// C01 (3): flat-file records are independent of their neighbours.  A chunk holds two templated records; in each
// record the organism line and the taxon cross-reference are present or not (one symbolic byte each turns the
// line into an unknown line of the same length) and the taxid digit is symbolic.  Whatever the first record
// holds, the second record parsed after it must be what it is when parsed alone.

//verif:stub (*regexp.Regexp).FindStringSubmatch = vNoSubmatch

// the sequence-length hint of the LOCUS line is optional: the stub answers "no length given"
func vNoSubmatch(re interface{}, s string) []string { return nil }

func vEmblRecord(id string, os, ft byte, digit byte) []byte {
	var b bytes.Buffer
	b.WriteString("ID   " + id + "; SV 1\n")
	b.WriteString("DE   a definition\n")
	b.WriteByte(os) // 'O' = organism line, 'X' = unknown line
	b.WriteString("S   Homo sapiens\n")
	b.WriteByte(ft) // 'F' = feature line with the taxon, 'X' = unknown line
	b.WriteString("T                   /db_xref=\"taxon:")
	b.WriteByte(digit)
	b.WriteString("\"\n")
	b.WriteString("     acgtac gtac\n")
	b.WriteString("//\n")
	return b.Bytes()
}

func vGenbankRecord(id string, src, xref byte, digit byte) []byte {
	var b bytes.Buffer
	b.WriteString("LOCUS       " + id + " 10 bp\n")
	b.WriteString("DEFINITION  a definition\n")
	b.WriteByte(src) // 'S' = SOURCE line, 'X' = unknown line
	b.WriteString("OURCE      Homo sapiens\n")
	b.WriteString("FEATURES             Location/Qualifiers\n")
	b.WriteString("                     ")
	b.WriteByte(xref) // '/' = taxon cross-reference, 'x' = another qualifier
	b.WriteString("db_xref=\"taxon:")
	b.WriteByte(digit)
	b.WriteString("\"\n")
	b.WriteString("ORIGIN\n")
	b.WriteString("        1 acgtacgtac\n")
	b.WriteString("//\n")
	return b.Bytes()
}

func vSameRecord(a, b *obiseq.BioSequence) bool {
	ta, _ := a.GetIntAttribute("taxid")
	tb, _ := b.GetIntAttribute("taxid")
	na, _ := a.GetStringAttribute("scientific_name")
	nb, _ := b.GetStringAttribute("scientific_name")
	return a.Id() == b.Id() && ta == tb && na == nb && a.Definition() == b.Definition() &&
		string(a.Sequence()) == string(b.Sequence())
}

// format: 0 EMBL, 1 GenBank
func VerifC01_FlatRecords(format int) {
	t1, x1, d1 := vByte("OX"), vByte("FX"), vByte("123456789")
	t2, x2, d2 := vByte("OX"), vByte("FX"), vByte("123456789")
	var r1, r2 []byte
	var parser func(string, *bytes.Reader) (obiseq.BioSequenceSlice, error)
	switch format {
	case 0:
		r1, r2 = vEmblRecord("A1", t1, x1, d1), vEmblRecord("B2", t2, x2, d2)
		p := EmblChunkParser(false)
		parser = func(s string, r *bytes.Reader) (obiseq.BioSequenceSlice, error) { return p(s, r) }
	case 1:
		src1, src2 := byte('S'), byte('S')
		if t1 == 'X' {
			src1 = 'X'
		}
		if t2 == 'X' {
			src2 = 'X'
		}
		q1, q2 := byte('/'), byte('/')
		if x1 == 'X' {
			q1 = 'x'
		}
		if x2 == 'X' {
			q2 = 'x'
		}
		r1, r2 = vGenbankRecord("A1", src1, q1, d1), vGenbankRecord("B2", src2, q2, d2)
		p := GenbankChunkParser(false)
		parser = func(s string, r *bytes.Reader) (obiseq.BioSequenceSlice, error) { return p(s, r) }
	default:
		vSkip()
	}
	both, _ := parser("src", bytes.NewReader(append(append([]byte{}, r1...), r2...)))
	alone, _ := parser("src", bytes.NewReader(r2))
	vAssert(len(both) == 2 && len(alone) == 1, "flat-one-record-per-entry")
	if len(both) == 2 && len(alone) == 1 {
		vAssert(vSameRecord(both[1], alone[0]), "flat-record-does-not-depend-on-its-predecessor")
	}
	vReach("end")
}
