package obiformats

import (
	"bytes"

	"git.metabarcoding.org/obitools/obitools4/obitools4/pkg/obiseq"
)

// C01 (4): FASTA / FASTQ records are independent of their neighbours.  A chunk holds two records; each title
// line is symbolically "identifier only", "identifier + definition" or "identifier + blank"; bases (and
// qualities) are symbolic.  The second record parsed after the first one must be what it is when parsed alone.

func vTitle(id string, shape byte) string {
	switch shape {
	case 'd':
		return id + " some text"
	case 'b':
		return id + " "
	}
	return id
}

func vTextRecord(format int, id string, shape byte, bases, quals []byte) []byte {
	var b bytes.Buffer
	if format == 0 {
		b.WriteByte('@')
	} else {
		b.WriteByte('>')
	}
	b.WriteString(vTitle(id, shape))
	b.WriteByte('\n')
	b.Write(bases)
	b.WriteByte('\n')
	if format == 0 {
		b.WriteString("+\n")
		b.Write(quals)
		b.WriteByte('\n')
	}
	return b.Bytes()
}

func vSameTextRecord(a, b *obiseq.BioSequence) bool {
	return a.Id() == b.Id() && a.Definition() == b.Definition() &&
		string(a.Sequence()) == string(b.Sequence()) && string(a.Qualities()) == string(b.Qualities()) &&
		len(a.Annotations()) == len(b.Annotations())
}

// format: 0 FASTQ, 1 FASTA
func VerifC01_TextRecords(format, L int) {
	s1, s2 := vByte("idb"), vByte("idb")
	b1, b2 := vBytes(L, "acgt"), vBytes(L, "acgt")
	q1, q2 := vBytes(L, "I5+@"), vBytes(L, "I5+@")
	r1 := vTextRecord(format, "A1", s1, b1, q1)
	r2 := vTextRecord(format, "B2", s2, b2, q2)
	var parser func(string, *bytes.Reader) (obiseq.BioSequenceSlice, error)
	if format == 0 {
		p := FastqChunkParser(33, true)
		parser = func(s string, r *bytes.Reader) (obiseq.BioSequenceSlice, error) { return p(s, r) }
	} else {
		p := FastaChunkParser()
		parser = func(s string, r *bytes.Reader) (obiseq.BioSequenceSlice, error) { return p(s, r) }
	}
	both, _ := parser("src", bytes.NewReader(append(append([]byte{}, r1...), r2...)))
	alone, _ := parser("src", bytes.NewReader(r2))
	vAssert(len(both) == 2 && len(alone) == 1, "text-one-record-per-entry")
	if len(both) == 2 && len(alone) == 1 {
		vAssert(vSameTextRecord(both[1], alone[0]), "text-record-does-not-depend-on-its-predecessor")
		// and it is the record of the text
		want := ""
		if s2 == 'd' {
			want = "some text"
		}
		vAssert(alone[0].Id() == "B2" && alone[0].Definition() == want && string(alone[0].Sequence()) == string(b2),
			"text-record-is-the-record-of-its-text")
	}
	vReach("end")
}
