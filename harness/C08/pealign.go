package obialign

import (
	"git.metabarcoding.org/obitools/obitools4/obitools4/pkg/obikmer"
	"git.metabarcoding.org/obitools/obitools4/obitools4/pkg/obiseq"
)

// C08: paired-end alignment in exact mode.  Bases are symbolic over acgt, qualities symbolic in {10, 20, 40}.

//verif:stub MOD/pkg/obialign._PairingScorePeAlign = vPairScore

// vPairScore stands for _PairingScorePeAlign in the symbolic run (the real one selects its formula through a
// floating-point table indexed by the bases).  On acgt and scale 1 the real function is exactly: the match
// table for equal bases, the mismatch table otherwise - both tables are the real ones, computed by the real
// initialiser.  The translator validation and every replay run the real function.
func vPairScore(baseA, qualA, baseB, qualB byte, scale float64) int {
	if scale != 1.0 {
		vSkip()
	}
	if baseA&31 == baseB&31 {
		return _NucScorePartMatchMatch[qualA][qualB]
	}
	return _NucScorePartMatchMismatch[qualA][qualB]
}

func vPair(a, qa, b, qb byte) int {
	if a == b {
		return _NucScorePartMatchMatch[qa][qb]
	}
	return _NucScorePartMatchMismatch[qa][qb]
}

func vMax3(a, b, c int) int {
	m := a
	if b > m {
		m = b
	}
	if c > m {
		m = c
	}
	return m
}

// reference optimum, end-gap-free scheme. left: a leading run of A and a trailing run of B are free;
// right: a leading run of B and a trailing run of A are free; every other gap column costs g.
func vrPEOptimum(a, qa, b, qb []byte, g int, left bool) int {
	la, lb := len(a), len(b)
	w := la + 1
	M := make([]int, (la+1)*(lb+1)) // M[j*w+i]: i bases of A and j bases of B consumed
	for i := 1; i <= la; i++ {
		if left {
			M[i] = 0
		} else {
			M[i] = i * g
		}
	}
	for j := 1; j <= lb; j++ {
		if left {
			M[j*w] = j * g
		} else {
			M[j*w] = 0
		}
		for i := 1; i <= la; i++ {
			diag := M[(j-1)*w+i-1] + vPair(a[i-1], qa[i-1], b[j-1], qb[j-1])
			gb := g // consuming b[j-1] alone
			if left && i == la {
				gb = 0
			}
			ga := g // consuming a[i-1] alone
			if !left && j == lb {
				ga = 0
			}
			M[j*w+i] = vMax3(diag, M[(j-1)*w+i]+gb, M[j*w+i-1]+ga)
		}
	}
	return M[lb*w+la]
}

func vMakeRead(id string, s, q []byte) *obiseq.BioSequence {
	return obiseq.NewBioSequenceWithQualities(id, s, "", q)
}

func VerifC08_Exact(la, lb, dirty int) {
	if la < 1 || lb < 1 {
		vSkip()
	}
	a, b := vBytes(la, "acgt"), vBytes(lb, "acgt")
	qa, qb := vBytes(la, "\x0a\x14\x28"), vBytes(lb, "\x0a\x14\x28")
	if !_InitializedDnaScore {
		_InitDNAScoreMatrix()
	}
	seqA, seqB := vMakeRead("a", a, qa), vMakeRead("b", b, qb)
	arena := MakePEAlignArena(la, lb)
	if dirty == 1 {
		// an arena that has been used before: arbitrary contents, too small -> reallocation path
		arena = MakePEAlignArena(1, 1)
	}
	shifts := make(map[int]int)
	isLeft, score, path, _, _, _ := PEAlign(seqA, seqB, 2.0, 1.0, false, 5, false, arena, &shifts)
	g := int(1.0*2.0*float64(_NucScorePartMatchMismatch[40][40]) + 0.5)

	// (1) the path consumes both reads exactly; (2) score recomputed along it
	i, j := 0, 0
	along := 0
	wellFormed := len(path)%2 == 0
	for k := 0; k+1 < len(path); k += 2 {
		step, diag := path[k], path[k+1]
		wellFormed = wellFormed && diag >= 0
		if step < 0 { // run of A alone
			n := -step
			free := (isLeft && j == 0) || (!isLeft && j == lb)
			if !free {
				along += n * g
			}
			i += n
		} else if step > 0 { // run of B alone
			free := (isLeft && i == la) || (!isLeft && i == 0)
			if !free {
				along += step * g
			}
			j += step
		}
		for d := 0; d < diag; d++ {
			if i < la && j < lb {
				along += vPair(a[i], qa[i], b[j], qb[j])
			}
			i++
			j++
		}
	}
	vAssert(wellFormed && i == la && j == lb, "pe-path-consumes-both-reads-exactly")
	if wellFormed && i == la && j == lb {
		vAssert(score == along, "pe-score-equals-score-along-the-path")
	}
	// (3) optimum of the independent dynamic program
	optL, optR := vrPEOptimum(a, qa, b, qb, g, true), vrPEOptimum(a, qa, b, qb, g, false)
	best := optR
	if optL > optR {
		best = optL
	}
	vAssert(score == best, "pe-score-is-the-optimum")
	vAssert(isLeft == (optL > optR), "pe-direction-flag")
	vReach("end")
}

// ----- fast mode -----
// The 4-mer heuristic (obikmer.Index4mer / FastShiftFourMer, decided separately by C19) is replaced by its
// contract: it reports the offset refpos - pos of some 4-mer shared by the two reads (so -(lb-4) <= shift <=
// la-4) with a count >= 1, or (0, 0) when the reads share none.  Whatever it reports, the path PEAlign builds
// around that offset must consume both reads exactly.

var vFastShift, vFastCount int

//verif:stub MOD/pkg/obikmer.Index4mer = vIndex4mer
//verif:stub MOD/pkg/obikmer.FastShiftFourMer = vFastShiftFourMer
func vIndex4mer(seq *obiseq.BioSequence, index *[][]int, buffer *[]byte) [][]int { return nil }

func vFastShiftFourMer(index [][]int, shifts *map[int]int, lindex int, seq *obiseq.BioSequence, relscore bool, buffer *[]byte) (int, int, float64) {
	return vFastShift, vFastCount, 0.5
}

func VerifC08_Fast(la, lb, delta, shift int) {
	if la < 4 || lb < 4 || shift < -(lb-4) || shift > la-4 {
		vSkip()
		return
	}
	// the offset is concrete per instance (it decides every slice bound), the hit count is symbolic
	count := vInt(0, la)
	a, b := vBytes(la, "acgt"), vBytes(lb, "acgt")
	qa, qb := vBytes(la, "\x0a\x14\x28"), vBytes(lb, "\x0a\x14\x28")
	if !vSymbolic() {
		// the heuristic cannot be told what to answer in a native run: reads on which the real heuristic
		// reports this offset are built instead, and the real PEAlign is checked on them
		vMaterialiseFast(la, lb, delta, shift, qa, qb)
		return
	}
	// the contract of the heuristic: no shared 4-mer -> (0, 0); else at most one hit per window of the overlap
	over := la - shift
	if shift <= 0 {
		over = lb + shift
	}
	if over > la {
		over = la
	}
	if over > lb {
		over = lb
	}
	vAssume((count == 0 && shift == 0) || (count >= 1 && count <= over-3))
	if !_InitializedDnaScore {
		_InitDNAScoreMatrix()
	}
	seqA, seqB := vMakeRead("a", a, qa), vMakeRead("b", b, qb)
	arena := MakePEAlignArena(la, lb)
	shifts := make(map[int]int)
	vFastShift, vFastCount = shift, count
	var path []int
	k := vCatch(func() {
		_, _, path, _, _, _ = PEAlign(seqA, seqB, 2.0, 1.0, true, delta, false, arena, &shifts)
	})
	vAssert(k == 0, "pe-fast-no-panic")
	if k != 0 {
		return
	}
	i, j := 0, 0
	wellFormed := len(path)%2 == 0
	for p := 0; p+1 < len(path); p += 2 {
		step, diag := path[p], path[p+1]
		wellFormed = wellFormed && diag >= 0
		if step < 0 {
			i -= step
		} else {
			j += step
		}
		i += diag
		j += diag
	}
	vAssert(wellFormed && i == la && j == lb, "pe-fast-path-consumes-both-reads-exactly")
	vReach("end")
}

func vPathConsumes(path []int, la, lb int) bool {
	i, j := 0, 0
	ok := len(path)%2 == 0
	for p := 0; p+1 < len(path); p += 2 {
		step, diag := path[p], path[p+1]
		ok = ok && diag >= 0
		if step < 0 {
			i -= step
		} else {
			j += step
		}
		i += diag
		j += diag
	}
	return ok && i == la && j == lb
}

// native only: reads of la / lb bases on which the real 4-mer heuristic reports `shift` (B is A moved by shift,
// completed with random bases, with and without a substitution in the overlap); the real PEAlign in fast mode
// must give a path that consumes both
func vMaterialiseFast(la, lb, delta, shift int, qa, qb []byte) {
	alphabet := []byte("acgt")
	rnd := uint64(1442695040888963407)
	next := func() uint64 {
		rnd ^= rnd << 13
		rnd ^= rnd >> 7
		rnd ^= rnd << 17
		return rnd
	}
	if !_InitializedDnaScore {
		_InitDNAScoreMatrix()
	}
	for try := 0; try < 3000; try++ {
		a := make([]byte, la)
		for i := range a {
			a[i] = alphabet[next()%4]
		}
		b := make([]byte, lb)
		for j := range b {
			if i := j + shift; i >= 0 && i < la {
				b[j] = a[i]
			} else {
				b[j] = alphabet[next()%4]
			}
		}
		if try%2 == 1 { // one substitution somewhere in B
			p := int(next() % uint64(lb))
			b[p] = alphabet[(vIdx(alphabet, b[p])+1+int(next()%3))%4]
		}
		seqA := vMakeRead("a", append([]byte{}, a...), append([]byte{}, qa...))
		seqB := vMakeRead("b", append([]byte{}, b...), append([]byte{}, qb...))
		arena := MakePEAlignArena(la, lb)
		shifts := make(map[int]int)
		index := obikmer.Index4mer(seqA, &arena.pointer.fastIndex, &arena.pointer.fastBuffer)
		got, _, _ := obikmer.FastShiftFourMer(index, &shifts, seqA.Len(), seqB, false, nil)
		if got != shift {
			continue
		}
		var path []int
		k := vCatch(func() {
			_, _, path, _, _, _ = PEAlign(seqA, seqB, 2.0, 1.0, true, delta, false, arena, &shifts)
		})
		if k != 0 {
			vAssert(false, "pe-fast-no-panic")
			return
		}
		if !vPathConsumes(path, la, lb) {
			vObserve("materialised-at-try", try)
			vAssert(false, "pe-fast-path-consumes-both-reads-exactly")
			return
		}
	}
}

func vIdx(al []byte, c byte) int {
	for i, x := range al {
		if x == c {
			return i
		}
	}
	return 0
}
