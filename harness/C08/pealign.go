package obialign

import "git.metabarcoding.org/obitools/obitools4/obitools4/pkg/obiseq"

// C08: paired-end alignment in exact mode.  Bases are symbolic over acgt, qualities symbolic in {10, 20, 40}.

//verif:stub MOD/pkg/obialign._PairingScorePeAlign = vPairScore

// vPairScore stands for _PairingScorePeAlign in the symbolic run (the real one selects its formula through a
// floating-point table indexed by the bases).  On acgt and scale 1 the real function is exactly: the match
// table for equal bases, the mismatch table otherwise - both tables are the real ones, computed by the real
// initialiser.  The translator validation and every replay run the real function.
func vPairScore(baseA, qualA, baseB, qualB byte, scale float64) int {
	if scale != 1.0 {
		vSkip()
	}
	if baseA&31 == baseB&31 {
		return _NucScorePartMatchMatch[qualA][qualB]
	}
	return _NucScorePartMatchMismatch[qualA][qualB]
}

func vPair(a, qa, b, qb byte) int {
	if a == b {
		return _NucScorePartMatchMatch[qa][qb]
	}
	return _NucScorePartMatchMismatch[qa][qb]
}

func vMax3(a, b, c int) int {
	m := a
	if b > m {
		m = b
	}
	if c > m {
		m = c
	}
	return m
}

// reference optimum, end-gap-free scheme. left: a leading run of A and a trailing run of B are free;
// right: a leading run of B and a trailing run of A are free; every other gap column costs g.
func vrPEOptimum(a, qa, b, qb []byte, g int, left bool) int {
	la, lb := len(a), len(b)
	w := la + 1
	M := make([]int, (la+1)*(lb+1)) // M[j*w+i]: i bases of A and j bases of B consumed
	for i := 1; i <= la; i++ {
		if left {
			M[i] = 0
		} else {
			M[i] = i * g
		}
	}
	for j := 1; j <= lb; j++ {
		if left {
			M[j*w] = j * g
		} else {
			M[j*w] = 0
		}
		for i := 1; i <= la; i++ {
			diag := M[(j-1)*w+i-1] + vPair(a[i-1], qa[i-1], b[j-1], qb[j-1])
			gb := g // consuming b[j-1] alone
			if left && i == la {
				gb = 0
			}
			ga := g // consuming a[i-1] alone
			if !left && j == lb {
				ga = 0
			}
			M[j*w+i] = vMax3(diag, M[(j-1)*w+i]+gb, M[j*w+i-1]+ga)
		}
	}
	return M[lb*w+la]
}

func vMakeRead(id string, s, q []byte) *obiseq.BioSequence {
	return obiseq.NewBioSequenceWithQualities(id, s, "", q)
}

func VerifC08_Exact(la, lb, dirty int) {
	if la < 1 || lb < 1 {
		vSkip()
	}
	a, b := vBytes(la, "acgt"), vBytes(lb, "acgt")
	qa, qb := vBytes(la, "\x0a\x14\x28"), vBytes(lb, "\x0a\x14\x28")
	if !_InitializedDnaScore {
		_InitDNAScoreMatrix()
	}
	seqA, seqB := vMakeRead("a", a, qa), vMakeRead("b", b, qb)
	arena := MakePEAlignArena(la, lb)
	if dirty == 1 {
		// an arena that has been used before: arbitrary contents, too small -> reallocation path
		arena = MakePEAlignArena(1, 1)
	}
	shifts := make(map[int]int)
	isLeft, score, path, _, _, _ := PEAlign(seqA, seqB, 2.0, 1.0, false, 5, false, arena, &shifts)
	g := int(1.0*2.0*float64(_NucScorePartMatchMismatch[40][40]) + 0.5)

	// (1) the path consumes both reads exactly; (2) score recomputed along it
	i, j := 0, 0
	along := 0
	wellFormed := len(path)%2 == 0
	for k := 0; k+1 < len(path); k += 2 {
		step, diag := path[k], path[k+1]
		wellFormed = wellFormed && diag >= 0
		if step < 0 { // run of A alone
			n := -step
			free := (isLeft && j == 0) || (!isLeft && j == lb)
			if !free {
				along += n * g
			}
			i += n
		} else if step > 0 { // run of B alone
			free := (isLeft && i == la) || (!isLeft && i == 0)
			if !free {
				along += step * g
			}
			j += step
		}
		for d := 0; d < diag; d++ {
			if i < la && j < lb {
				along += vPair(a[i], qa[i], b[j], qb[j])
			}
			i++
			j++
		}
	}
	vAssert(wellFormed && i == la && j == lb, "pe-path-consumes-both-reads-exactly")
	if wellFormed && i == la && j == lb {
		vAssert(score == along, "pe-score-equals-score-along-the-path")
	}
	// (3) optimum of the independent dynamic program
	optL, optR := vrPEOptimum(a, qa, b, qb, g, true), vrPEOptimum(a, qa, b, qb, g, false)
	best := optR
	if optL > optR {
		best = optL
	}
	vAssert(score == best, "pe-score-is-the-optimum")
	vAssert(isLeft == (optL > optR), "pe-direction-flag")
	vReach("end")
}

// ----- fast mode -----
// The 4-mer heuristic (obikmer.Index4mer / FastShiftFourMer, decided separately by C19) is replaced by its
// contract: it reports the offset refpos - pos of some 4-mer shared by the two reads (so -(lb-4) <= shift <=
// la-4) with a count >= 1, or (0, 0) when the reads share none.  Whatever it reports, the path PEAlign builds
// around that offset must consume both reads exactly.

var vFastShift, vFastCount int

//verif:stub MOD/pkg/obikmer.Index4mer = vIndex4mer
//verif:stub MOD/pkg/obikmer.FastShiftFourMer = vFastShiftFourMer
func vIndex4mer(seq *obiseq.BioSequence, index *[][]int, buffer *[]byte) [][]int { return nil }

func vFastShiftFourMer(index [][]int, shifts *map[int]int, lindex int, seq *obiseq.BioSequence, relscore bool, buffer *[]byte) (int, int, float64) {
	return vFastShift, vFastCount, 0.5
}

func VerifC08_Fast(la, lb, delta int) {
	if la < 1 || lb < 1 {
		vSkip()
		return
	}
	shift, count := 0, 0
	if la >= 4 && lb >= 4 {
		shift, count = vInt(-(lb - 4), la-4), vInt(0, la)
	}
	a, b := vBytes(la, "acgt"), vBytes(lb, "acgt")
	qa, qb := vBytes(la, "\x0a\x14\x28"), vBytes(lb, "\x0a\x14\x28")
	vAssume(count >= 1 || shift == 0)
	if !_InitializedDnaScore {
		_InitDNAScoreMatrix()
	}
	seqA, seqB := vMakeRead("a", a, qa), vMakeRead("b", b, qb)
	arena := MakePEAlignArena(la, lb)
	shifts := make(map[int]int)
	vFastShift, vFastCount = shift, count
	var path []int
	k := vCatch(func() {
		_, _, path, _, _, _ = PEAlign(seqA, seqB, 2.0, 1.0, true, delta, false, arena, &shifts)
	})
	vAssert(k == 0, "pe-fast-no-panic")
	if k != 0 {
		return
	}
	i, j := 0, 0
	wellFormed := len(path)%2 == 0
	for p := 0; p+1 < len(path); p += 2 {
		step, diag := path[p], path[p+1]
		wellFormed = wellFormed && diag >= 0
		if step < 0 {
			i -= step
		} else {
			j += step
		}
		i += diag
		j += diag
	}
	vAssert(wellFormed && i == la && j == lb, "pe-fast-path-consumes-both-reads-exactly")
	vReach("end")
}
