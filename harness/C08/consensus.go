package obialign

import "git.metabarcoding.org/obitools/obitools4/obitools4/pkg/obiseq"

// C08 (consensus): BuildQualityConsensus on an alignment path.  The path is one of the shapes a paired-end
// alignment returns (an unpaired run of one read, a diagonal, possibly an inner gap and a second diagonal, a
// trailing run of the other read), concrete per instance; bases (acgt) and qualities are symbolic.  One
// column per path column; where both reads have a base the higher quality wins, a tie on different bases gives
// the IUPAC ambiguity code; qualities add up (capped at 90) where the bases agree or only one read is present.
// The quality of a mismatch column is a floating-point formula: not asserted here.

// the IUPAC code of two different plain bases
func vrAmbiguity(x, y byte) byte {
	has := func(c byte) bool { return x == c || y == c }
	switch {
	case has('a') && has('c'):
		return 'm'
	case has('a') && has('g'):
		return 'r'
	case has('a') && has('t'):
		return 'w'
	case has('c') && has('g'):
		return 's'
	case has('c') && has('t'):
		return 'y'
	}
	return 'k' // g t
}

// shape: 0 left overhang of A then diagonal then right overhang of B
//        1 left overhang of B then diagonal then right overhang of A
//        2 diagonal only (LA == LB required)      3 diagonal, one-base gap in B (A-only column), diagonal
//        4 diagonal, one-base gap in A (B-only column), diagonal
// ov: length of the (first) diagonal
func vConsensusPath(LA, LB, shape, ov int) []int {
	switch shape {
	case 0:
		if ov >= 1 && ov <= LA && ov <= LB {
			return []int{-(LA - ov), ov, LB - ov, 0}
		}
	case 1:
		if ov >= 1 && ov <= LA && ov <= LB {
			return []int{LB - ov, ov, -(LA - ov), 0}
		}
	case 2:
		if LA == LB && ov == LA {
			return []int{0, LA}
		}
	case 3:
		if ov >= 1 && ov+1 < LA && LA-1 == LB {
			return []int{0, ov, -1, LA - ov - 1}
		}
	case 4:
		if ov >= 1 && ov+1 < LB && LB-1 == LA {
			return []int{0, ov, 1, LB - ov - 1}
		}
	}
	return nil
}

func VerifC08_Consensus(LA, LB, shape, ov int) {
	path := vConsensusPath(LA, LB, shape, ov)
	if path == nil {
		vSkip()
		return
	}
	a, b := vBytes(LA, "acgt"), vBytes(LB, "acgt")
	qa, qb := vBytes(LA, "\x00\x0a\x14\x28\x32"), vBytes(LB, "\x00\x0a\x14\x28\x32") // 0 10 20 40 50
	sa := obiseq.NewBioSequenceWithQualities("a", append([]byte{}, a...), "", append([]byte{}, qa...))
	sb := obiseq.NewBioSequenceWithQualities("b", append([]byte{}, b...), "", append([]byte{}, qb...))
	arena := MakePEAlignArena(LA, LB)
	cons, match := BuildQualityConsensus(sa, sb, path, false, arena)

	// reference columns: (ia, ib) index in A / B or -1
	var colA, colB []int
	pa, pb := 0, 0
	for i := 0; i < len(path); i += 2 {
		st := path[i]
		for k := 0; k < -st; k++ {
			colA, colB = append(colA, pa), append(colB, -1)
			pa++
		}
		for k := 0; k < st; k++ {
			colA, colB = append(colA, -1), append(colB, pb)
			pb++
		}
		if i+1 < len(path) {
			for k := 0; k < path[i+1]; k++ {
				colA, colB = append(colA, pa), append(colB, pb)
				pa++
				pb++
			}
		}
	}
	vAssert(pa == LA && pb == LB, "consensus-harness-path-consumes-both-reads")
	seq, qual := cons.Sequence(), cons.Qualities()
	vAssert(len(seq) == len(colA) && len(qual) == len(colA), "consensus-one-base-and-one-quality-per-column")
	if len(seq) != len(colA) || len(qual) != len(colA) {
		return
	}
	okBase, okQual, wantMatch := true, true, 0
	for c := range colA {
		ia, ib := colA[c], colB[c]
		switch {
		case ib < 0:
			okBase = okBase && seq[c] == a[ia]
			okQual = okQual && qual[c] == qa[ia]
		case ia < 0:
			okBase = okBase && seq[c] == b[ib]
			okQual = okQual && qual[c] == qb[ib]
		default:
			x, y, qx, qy := a[ia], b[ib], qa[ia], qb[ib]
			switch {
			case qx > qy:
				okBase = okBase && seq[c] == x
			case qy > qx:
				okBase = okBase && seq[c] == y
			case x == y:
				okBase = okBase && seq[c] == x
			default:
				okBase = okBase && seq[c] == vrAmbiguity(x, y)
			}
			if x == y || qx == 0 || qy == 0 {
				s := int(qx) + int(qy)
				if s > 90 {
					s = 90
				}
				okQual = okQual && int(qual[c]) == s
			}
			if x == y && qx > 0 && qy > 0 {
				wantMatch++
			}
		}
	}
	vAssert(okBase, "consensus-higher-quality-base-wins-tie-gives-ambiguity-code")
	vAssert(okQual, "consensus-qualities-add-up-where-no-mismatch")
	vAssert(match == wantMatch, "consensus-match-count")
	// the reads themselves are untouched
	same := true
	for i := range a {
		same = same && sa.Sequence()[i] == a[i]
	}
	for i := range b {
		same = same && sb.Sequence()[i] == b[i]
	}
	vAssert(same, "consensus-leaves-the-reads-unchanged")
	vReach("end")
}

var vQualCatalogue = []byte{0, 10, 20, 40}

// what a column of the consensus holds (base and quality) depends on that column only: the second column of a
// two-column alignment equals the only column of the alignment of the same two bases alone.  Qualities are
// concrete per instance (so that the floating-point quality of a mismatch is computed exactly), bases symbolic.
func VerifC08_ConsensusColumn(ia0, ib0, ia1, ib1 int) {
	qa0, qb0, qa1, qb1 := vQualCatalogue[ia0], vQualCatalogue[ib0], vQualCatalogue[ia1], vQualCatalogue[ib1]
	a, b := vBytes(2, "acgt"), vBytes(2, "acgt")
	two, _ := BuildQualityConsensus(
		obiseq.NewBioSequenceWithQualities("a", []byte{a[0], a[1]}, "", []byte{qa0, qa1}),
		obiseq.NewBioSequenceWithQualities("b", []byte{b[0], b[1]}, "", []byte{qb0, qb1}),
		[]int{0, 2}, false, MakePEAlignArena(2, 2))
	one, _ := BuildQualityConsensus(
		obiseq.NewBioSequenceWithQualities("a", []byte{a[1]}, "", []byte{qa1}),
		obiseq.NewBioSequenceWithQualities("b", []byte{b[1]}, "", []byte{qb1}),
		[]int{0, 1}, false, MakePEAlignArena(1, 1))
	vAssert(two.Len() == 2 && one.Len() == 1, "consensus-column-count")
	if two.Len() == 2 && one.Len() == 1 {
		vAssert(two.Sequence()[1] == one.Sequence()[0], "consensus-column-base-depends-on-the-column-only")
		vAssert(two.Qualities()[1] == one.Qualities()[0], "consensus-column-quality-depends-on-the-column-only")
	}
	vReach("end")
}
