package obiutils

import "errors"

// C18: obiutils.Wfile (buffered, optionally compressed output stream): when the underlying stream fails - a
// write, at any point, including the flush performed by Close - or its Close fails, the failure is returned by
// Write or by Close; Close never returns nil when bytes did not reach the output.

var vErrDisk = errors.New("no space left on device")

type vSink struct {
	written    int
	nWrites    int
	failAt     int
	closeFails bool
	closed     int
}

func (w *vSink) Write(p []byte) (int, error) {
	i := w.nWrites
	w.nWrites++
	if i == w.failAt {
		return 0, vErrDisk
	}
	w.written += len(p)
	return len(p), nil
}

func (w *vSink) Close() error {
	w.closed++
	if w.closeFails {
		return vErrDisk
	}
	return nil
}

// size: number of bytes written through the Wfile, in two calls; 5000 exceeds the 4096-byte buffer
func VerifC18_Wfile(size int) {
	failAt, closeFails := vInt(-1, 2), vBool()
	sink := &vSink{failAt: failAt, closeFails: closeFails}
	w, _ := CompressStream(sink, false, true)
	half := size / 2
	_, e1 := w.Write(make([]byte, half))
	_, e2 := w.Write(make([]byte, size-half))
	e3 := w.Close()
	reported := e1 != nil || e2 != nil || e3 != nil
	lost := sink.written != size
	vAssert(!lost || reported, "wfile-lost-bytes-are-reported")
	vAssert(!(closeFails && sink.closed > 0) || reported, "wfile-close-failure-is-reported")
	vAssert(failAt >= 0 || closeFails || !reported, "wfile-no-fault-no-error")
	if lost {
		vReach("lost")
	}
	vReach("end")
}
