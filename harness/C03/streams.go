package obiiter

import "git.metabarcoding.org/obitools/obitools4/obitools4/pkg/obiseq"

// C03: the stream transformations, driven through their real constructors.  Goroutines are pending tasks, channels
// FIFO queues; what a scheduler can change between a multi-worker producer and its consumer - the arrival
// order of the batches - is a symbolic permutation.  Records are distinct objects, so "each record exactly
// once, in order" is pointer-sequence equality.

// sizes: batch i holds digit i (base 3) of pattern records: 0, 1 or 2
func vMakeBatches(n, pattern int) ([]BioSequenceBatch, []*obiseq.BioSequence) {
	var batches []BioSequenceBatch
	var all []*obiseq.BioSequence
	for i := 0; i < n; i++ {
		sz := pattern % 3
		pattern /= 3
		sl := obiseq.MakeBioSequenceSlice()
		for k := 0; k < sz; k++ {
			s := obiseq.NewEmptyBioSequence(0)
			sl = append(sl, s)
			all = append(all, s)
		}
		batches = append(batches, MakeBioSequenceBatch("src", i, sl))
	}
	return batches, all
}

func vPermutation(n int) []int {
	o := vInts(n)
	for i := 0; i < n; i++ {
		vAssume(o[i] >= 0 && o[i] < n)
		for j := 0; j < i; j++ {
			vAssume(o[i] != o[j])
		}
	}
	return o
}

// an iterator delivering the batches in the given arrival order
func vInput(batches []BioSequenceBatch, arrival []int) IBioSequence {
	it := MakeIBioSequence()
	it.Add(1)
	go func() { it.WaitAndClose() }()
	go func() {
		for j := range arrival {
			it.Push(batches[arrival[j]])
		}
		it.Done()
	}()
	return it
}

func vDrain(it IBioSequence) ([]int, []*obiseq.BioSequence) {
	var orders []int
	var recs []*obiseq.BioSequence
	for it.Next() {
		b := it.Get()
		orders = append(orders, b.Order())
		recs = append(recs, b.Slice()...)
	}
	return orders, recs
}

func vOrdersAreCounting(orders []int) bool {
	ok := true
	for i, o := range orders {
		ok = ok && o == i
	}
	return ok
}

func vSameRecords(a, b []*obiseq.BioSequence) bool {
	if len(a) != len(b) {
		return false
	}
	ok := true
	for i := range a {
		ok = ok && a[i] == b[i]
	}
	return ok
}

// SortBatches: whatever the arrival order, batches leave numbered 0,1,2,... with every record once, in order
func VerifC03_SortBatches(n, pattern int) {
	batches, all := vMakeBatches(n, pattern)
	out := vInput(batches, vPermutation(n)).SortBatches()
	orders, recs := vDrain(out)
	vAssert(len(orders) == n && vOrdersAreCounting(orders), "sortbatches-orders-0-to-n")
	vAssert(vSameRecords(recs, all), "sortbatches-every-record-once-in-order")
	vReach("end")
}

// the orders are a permutation of 0..m-1 (no gap, no duplicate)
func vOrdersArePermutation(orders []int) bool {
	ok := true
	for k := range orders {
		seen := 0
		for _, o := range orders {
			if o == k {
				seen++
			}
		}
		ok = ok && seen == 1
	}
	return ok
}

// Concat: first stream then second, numbered without gap or duplicate, also when a stream is empty
func VerifC03_Concat(n1, p1, n2, p2 int) {
	b1, all1 := vMakeBatches(n1, p1)
	b2, all2 := vMakeBatches(n2, p2)
	i1 := vInput(b1, vPermutation(n1))
	i2 := vInput(b2, vPermutation(n2))
	orders, _ := vDrain(i1.Concat(i2))
	vAssert(len(orders) == n1+n2 && vOrdersArePermutation(orders), "concat-batches-numbered-without-gap-or-duplicate")
	// and after re-sequencing: the records of the first stream, then those of the second
	c1, d1 := vMakeBatches(n1, p1)
	c2, d2 := vMakeBatches(n2, p2)
	_, recs := vDrain(vInput(c1, vPermutation(n1)).Concat(vInput(c2, vPermutation(n2))).SortBatches())
	vAssert(vSameRecords(recs, append(append([]*obiseq.BioSequence{}, d1...), d2...)), "concat-every-record-once-first-stream-first")
	_, _ = all1, all2
	vReach("end")
}

// Rebatch(size): batches of exactly size records (last one smaller, never empty), numbered 0.., records in order
func VerifC03_Rebatch(n, pattern, size int) {
	batches, all := vMakeBatches(n, pattern)
	out := vInput(batches, vPermutation(n)).Rebatch(size)
	var orders []int
	var recs []*obiseq.BioSequence
	sizesOK := true
	nb := 0
	total := len(all)
	want := (total + size - 1) / size
	for out.Next() {
		b := out.Get()
		orders = append(orders, b.Order())
		recs = append(recs, b.Slice()...)
		nb++
		if nb < want {
			sizesOK = sizesOK && b.Len() == size
		} else {
			sizesOK = sizesOK && b.Len() > 0 && b.Len() <= size
		}
	}
	vAssert(nb == want && vOrdersAreCounting(orders), "rebatch-orders-0-to-m")
	vAssert(sizesOK, "rebatch-batch-sizes")
	vAssert(vSameRecords(recs, all), "rebatch-every-record-once-in-order")
	vReach("end")
}

// FilterEmpty: the non-empty batches, renumbered, in order
func VerifC03_FilterEmpty(n, pattern int) {
	batches, all := vMakeBatches(n, pattern)
	nonEmpty := 0
	for _, b := range batches {
		if b.Len() > 0 {
			nonEmpty++
		}
	}
	out := vInput(batches, vPermutation(n)).FilterEmpty()
	var orders []int
	var recs []*obiseq.BioSequence
	noEmpty := true
	for out.Next() {
		b := out.Get()
		orders = append(orders, b.Order())
		recs = append(recs, b.Slice()...)
		noEmpty = noEmpty && b.Len() > 0
	}
	vAssert(len(orders) == nonEmpty && vOrdersAreCounting(orders) && noEmpty, "filterempty-orders-and-no-empty-batch")
	vAssert(vSameRecords(recs, all), "filterempty-every-record-once-in-order")
	vReach("end")
}

// DivideOn: an arbitrary predicate (one symbolic verdict per record): kept and discarded streams partition
// the input, each in input order, each numbered 0..
func VerifC03_DivideOn(n, pattern, size int) {
	batches, all := vMakeBatches(n, pattern)
	verdict := make([]bool, len(all))
	for i := range verdict {
		verdict[i] = vBool()
	}
	pred := func(s *obiseq.BioSequence) bool {
		r := false
		for i, x := range all {
			if x == s {
				r = verdict[i]
			}
		}
		return r
	}
	yes, no := vInput(batches, vPermutation(n)).DivideOn(pred, size)
	// the two outputs are consumed concurrently (a sequential consumer would deadlock on the real channels)
	var oy []int
	var ry []*obiseq.BioSequence
	done := make(chan bool)
	go func() {
		oy, ry = vDrain(yes)
		done <- true
	}()
	on, rn := vDrain(no)
	<-done
	var wy, wn []*obiseq.BioSequence
	for i, s := range all {
		if verdict[i] {
			wy = append(wy, s)
		} else {
			wn = append(wn, s)
		}
	}
	vAssert(vOrdersAreCounting(oy) && vOrdersAreCounting(on), "divideon-orders")
	vAssert(vSameRecords(ry, wy), "divideon-selected-records-in-order")
	vAssert(vSameRecords(rn, wn), "divideon-discarded-records-are-the-complement-in-order")
	vReach("end")
}

// IBatchOver: a slice of L records cut into batches of `size`: every record once in order, also for no record
func VerifC03_BatchOver(L, size int) {
	data := obiseq.MakeBioSequenceSlice()
	for i := 0; i < L; i++ {
		data = append(data, obiseq.NewEmptyBioSequence(0))
	}
	var orders []int
	var recs []*obiseq.BioSequence
	k := vCatch(func() { orders, recs = vDrain(IBatchOver("src", data, size)) })
	vAssert(k == 0, "batchover-no-panic")
	if k == 0 {
		vAssert(len(orders) == (L+size-1)/size && vOrdersAreCounting(orders), "batchover-orders")
		vAssert(vSameRecords(recs, data), "batchover-every-record-once-in-order")
	}
	vReach("end")
}

// parallel slice workers: every record goes through the worker exactly once; batch numbers are those of the
// input; after re-sequencing the records are in input order
func VerifC03_Workers(n, pattern, nworkers int) {
	batches, all := vMakeBatches(n, pattern)
	touched := make([]int, len(all))
	worker := func(s *obiseq.BioSequence) (obiseq.BioSequenceSlice, error) {
		for i, x := range all {
			if x == s {
				touched[i]++
			}
		}
		return obiseq.BioSequenceSlice{s}, nil
	}
	out := vInput(batches, vPermutation(n)).MakeIWorker(worker, false, nworkers)
	orders, _ := vDrain(out)
	vAssert(len(orders) == n && vOrdersArePermutation(orders), "workers-batch-numbers-preserved")
	ok := true
	for _, t := range touched {
		ok = ok && t == 1
	}
	vAssert(ok, "workers-every-record-processed-exactly-once")
	b2, all2 := vMakeBatches(n, pattern)
	_, recs := vDrain(vInput(b2, vPermutation(n)).MakeIWorker(nil, false, nworkers).SortBatches())
	vAssert(vSameRecords(recs, all2), "workers-every-record-once-in-order-after-resequencing")
	vReach("end")
}

// Distribute on a key: one output stream per key value, each numbered 0.., holding the records of that key in
// input order; every record delivered exactly once.  classes: bit r = class of record r
func VerifC03_Distribute(n, pattern, classes, size int) {
	batches, all := vMakeBatches(n, pattern)
	cls := make([]int, len(all))
	for r, s := range all {
		cls[r] = (classes >> uint(r)) & 1
		if cls[r] == 1 {
			s.SetAttribute("k", "y")
		} else {
			s.SetAttribute("k", "x")
		}
	}
	dist := vInput(batches, vPermutation(n)).Distribute(obiseq.AnnotationClassifier("k", "NA"), size)
	type got struct {
		orders []int
		recs   []*obiseq.BioSequence
	}
	var outs []got
	var keys []int
	done := make(chan bool)
	pendingDrains := 0
	for key := range dist.News() {
		it, err := dist.Outputs(key)
		vAssert(err == nil, "distribute-announced-key-has-an-output")
		keys = append(keys, key)
		outs = append(outs, got{})
		idx := len(outs) - 1
		pendingDrains++
		go func() {
			o, r := vDrain(it)
			outs[idx] = got{o, r}
			done <- true
		}()
	}
	for i := 0; i < pendingDrains; i++ {
		<-done
	}
	// expected: classes in order of first appearance
	var firstSeen []int
	for r := range all {
		seen := false
		for _, c := range firstSeen {
			seen = seen || c == cls[r]
		}
		if !seen {
			firstSeen = append(firstSeen, cls[r])
		}
	}
	vAssert(len(outs) == len(firstSeen), "distribute-one-output-per-key-value")
	if len(outs) == len(firstSeen) {
		ok := true
		for k, c := range firstSeen {
			var want []*obiseq.BioSequence
			for r, s := range all {
				if cls[r] == c {
					want = append(want, s)
				}
			}
			ok = ok && vOrdersAreCounting(outs[k].orders) && vSameRecords(outs[k].recs, want)
		}
		vAssert(ok, "distribute-each-key-gets-its-records-once-in-order")
	}
	vReach("end")
}
