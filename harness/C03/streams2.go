package obiiter

import (
	"git.metabarcoding.org/obitools/obitools4/obitools4/pkg/obioptions"
	"git.metabarcoding.org/obitools/obitools4/obitools4/pkg/obiseq"
)

// C03, second part: pooling, filtering, pairing of mates, fragmenting, the tee and the full-file mode.

// every element of want occurs exactly once in got and nothing else does
func vSameRecordSet(got, want []*obiseq.BioSequence) bool {
	if len(got) != len(want) {
		return false
	}
	ok := true
	for _, w := range want {
		n := 0
		for _, g := range got {
			if g == w {
				n++
			}
		}
		ok = ok && n == 1
	}
	return ok
}

// Pool: the batches of both streams, renumbered without gap or duplicate, every record exactly once
func VerifC03_Pool(n1, p1, n2, p2 int) {
	b1, all1 := vMakeBatches(n1, p1)
	b2, all2 := vMakeBatches(n2, p2)
	i1 := vInput(b1, vPermutation(n1))
	i2 := vInput(b2, vPermutation(n2))
	orders, recs := vDrain(i1.Pool(i2))
	vAssert(len(orders) == n1+n2 && vOrdersArePermutation(orders), "pool-batches-numbered-without-gap-or-duplicate")
	vAssert(vSameRecordSet(recs, append(append([]*obiseq.BioSequence{}, all1...), all2...)), "pool-every-record-exactly-once")
	vReach("end")
}

// FilterOn with an arbitrary predicate (one symbolic verdict per record) and 1..3 workers: the kept records,
// in input order, in batches numbered 0..
func VerifC03_FilterOn(n, pattern, size, nworkers int) {
	batches, all := vMakeBatches(n, pattern)
	verdict := make([]bool, len(all))
	for i := range verdict {
		verdict[i] = vBool()
	}
	arrival := vPermutation(n)
	pred := func(s *obiseq.BioSequence) bool {
		r := false
		for i, x := range all {
			if x == s {
				r = verdict[i]
			}
		}
		return r
	}
	orders, recs := vDrain(vInput(batches, arrival).FilterOn(pred, size, nworkers))
	var want []*obiseq.BioSequence
	for i, s := range all {
		if verdict[i] {
			want = append(want, s)
		}
	}
	vAssert(vOrdersAreCounting(orders), "filteron-orders-0-to-m")
	vAssert(vSameRecords(recs, want), "filteron-kept-records-once-in-order")
	vReach("end")
}

// PairTo: two streams holding the same number of records, cut into batches independently and arriving in any
// order: record i of the first stream is paired with record i of the second, output numbered 0..
func VerifC03_PairTo(n1, p1, n2, p2, size int) {
	b1, all1 := vMakeBatches(n1, p1)
	b2, all2 := vMakeBatches(n2, p2)
	if len(all1) != len(all2) {
		vSkip()
		return
	}
	a1 := vPermutation(n1)
	a2 := vPermutation(n2)
	obioptions.SetBatchSize(size)
	var orders []int
	var recs []*obiseq.BioSequence
	k := vCatch(func() { orders, recs = vDrain(vInput(b1, a1).PairTo(vInput(b2, a2))) })
	vAssert(k == 0, "pairto-no-fatal-on-equally-long-streams")
	if k == 0 {
		vAssert(vOrdersAreCounting(orders), "pairto-orders-0-to-m")
		vAssert(vSameRecords(recs, all1), "pairto-forward-records-once-in-order")
		ok := len(recs) == len(all2)
		if ok {
			for i, s := range recs {
				ok = ok && s.IsPaired() && s.PairedWith() == all2[i]
			}
		}
		vAssert(ok, "pairto-record-i-is-paired-with-mate-i")
	}
	vReach("end")
}

// IFragments on one record of L symbolic bases: a record of at most minsize bases passes unchanged; a longer
// one is cut into windows starting every length-overlap bases, of `length` bases except the last which runs to
// the end of the sequence (and absorbs a remainder shorter than one step).  The windows are in order, hold the
// bases of the source (which is recycled afterwards) and cover it.
func VerifC03_Fragments(L, minsize, length, overlap, nworkers int) {
	if overlap >= length || L < 1 {
		vSkip()
		return
	}
	bases := vBytes(L, "acgt")
	keep := make([]byte, L)
	copy(keep, bases)
	s := obiseq.NewBioSequence("r", bases, "")
	b := MakeBioSequenceBatch("src", 0, obiseq.BioSequenceSlice{s})
	in := vInput([]BioSequenceBatch{b}, []int{0})
	out := IFragments(minsize, length, overlap, 10, nworkers)(in)
	orders, recs := vDrain(out)
	vAssert(vOrdersAreCounting(orders), "fragments-orders-0-to-m")
	step := length - overlap
	if L <= minsize {
		vAssert(len(recs) == 1 && recs[0] == s, "fragments-short-record-passes-unchanged")
	} else {
		// reference windows
		var from, to []int
		for i := 0; i < L; i += step {
			e := i + length
			if e > L {
				e = L
			}
			last := L-e < step
			if last {
				e = L
			}
			from, to = append(from, i), append(to, e)
			if last {
				break
			}
		}
		vAssert(len(recs) == len(from), "fragments-number-of-windows")
		if len(recs) == len(from) {
			ok := true
			for k, r := range recs {
				seq := r.Sequence()
				ok = ok && len(seq) == to[k]-from[k]
				if len(seq) == to[k]-from[k] {
					for j := range seq {
						ok = ok && seq[j] == keep[from[k]+j]
					}
				}
			}
			vAssert(ok, "fragments-windows-hold-the-source-bases-in-order")
		}
	}
	vReach("end")
}

// CopyTee: both outputs deliver every batch, in the order of arrival, and both end
func VerifC03_CopyTee(n, pattern int) {
	batches, all := vMakeBatches(n, pattern)
	arrival := vPermutation(n)
	first, second := vInput(batches, arrival).CopyTee()
	var o2 []int
	var r2 []*obiseq.BioSequence
	done := make(chan bool)
	go func() {
		o2, r2 = vDrain(second)
		done <- true
	}()
	o1, r1 := vDrain(first)
	<-done
	ok := len(o1) == n && len(o2) == n
	if ok {
		for i := range o1 {
			ok = ok && o1[i] == arrival[i] && o2[i] == arrival[i]
		}
	}
	vAssert(ok, "copytee-both-outputs-get-every-batch")
	vAssert(vSameRecordSet(r1, all) && vSameRecordSet(r2, all), "copytee-both-outputs-get-every-record-once")
	vReach("end")
}

// CompleteFileIterator (full-file mode of the readers): one batch numbered 0 holding every record; nothing
// for an empty input.  The input batches arrive in order (the readers sort before).
func VerifC03_CompleteFile(n, pattern int) {
	batches, all := vMakeBatches(n, pattern)
	arrival := make([]int, n)
	for i := range arrival {
		arrival[i] = i
	}
	orders, recs := vDrain(vInput(batches, arrival).CompleteFileIterator())
	if len(all) == 0 {
		vAssert(len(orders) == 0, "completefile-empty-input-gives-no-batch")
	} else {
		vAssert(len(orders) == 1 && orders[0] == 0, "completefile-one-batch-numbered-0")
	}
	vAssert(vSameRecords(recs, all), "completefile-every-record-once-in-order")
	vReach("end")
}

// IMergeSequenceBatch (obiuniq): every input batch (a class of 1 or 2 records) becomes exactly one merged record
// whose count is the size of the class; output batches hold at most `group` of them and are numbered 0..
// without gap, for every arrival order.
func VerifC03_Merge(n, pattern, group int) {
	batches, _ := vMakeBatches(n, pattern)
	for _, b := range batches {
		if b.Len() == 0 {
			vSkip() // a class is never empty
			return
		}
	}
	arrival := vPermutation(n)
	firsts := make([]*obiseq.BioSequence, n)
	sizes := make([]int, n)
	for i, b := range batches {
		firsts[i] = b.Slice()[0]
		sizes[i] = b.Len()
	}
	out := vInput(batches, arrival).IMergeSequenceBatch("NA", obiseq.StatsOnDescriptions{}, group)
	var orders []int
	var recs []*obiseq.BioSequence
	sizesOK := true
	for out.Next() {
		b := out.Get()
		orders = append(orders, b.Order())
		recs = append(recs, b.Slice()...)
		sizesOK = sizesOK && b.Len() >= 1 && b.Len() <= group
	}
	vAssert(vOrdersAreCounting(orders) && sizesOK, "merge-batches-numbered-0-to-m-and-at-most-group-records")
	ok := len(recs) == n
	if ok {
		for j := 0; j < n; j++ {
			// the j-th merged record is the class that arrived j-th
			for i := 0; i < n; i++ {
				if arrival[j] == i {
					ok = ok && recs[j] == firsts[i] && recs[j].Count() == sizes[i]
				}
			}
		}
	}
	vAssert(ok, "merge-one-record-per-class-with-the-class-size-as-count")
	vReach("end")
}
