package obikmer

import "git.metabarcoding.org/obitools/obitools4/obitools4/pkg/obiseq"

// C15 / C19 (the 4-mer prefilter itself): Count4Mer counts every window of a sequence once and Common4Mer is
// the size of the multiset intersection of the windows of two sequences - every 4-letter word included.

func vWinEq(a []byte, i int, b []byte, j int) bool {
	return a[i] == b[j] && a[i+1] == b[j+1] && a[i+2] == b[j+2] && a[i+3] == b[j+3]
}

func VerifC15_Common4Mer(la, lb int) {
	if la < 4 || lb < 4 {
		vSkip()
		return
	}
	a, b := vBytes(la, "acgt"), vBytes(lb, "acgt")
	ca := Count4Mer(obiseq.NewBioSequence("a", append([]byte{}, a...), ""), nil, nil)
	cb := Count4Mer(obiseq.NewBioSequence("b", append([]byte{}, b...), ""), nil, nil)
	vAssert(Sum4Mer(ca) == la-3 && Sum4Mer(cb) == lb-3, "count4mer-counts-every-window-once")
	// multiset intersection: window i of a is matched when fewer equal windows precede it in a than exist in b
	want := 0
	for i := 0; i+4 <= la; i++ {
		before := 0
		for j := 0; j < i; j++ {
			if vWinEq(a, j, a, i) {
				before++
			}
		}
		inB := 0
		for j := 0; j+4 <= lb; j++ {
			if vWinEq(a, i, b, j) {
				inB++
			}
		}
		if before < inB {
			want++
		}
	}
	vAssert(Common4Mer(ca, cb) == want, "common4mer-is-the-multiset-intersection-of-the-windows")
	vAssert(Common4Mer(ca, cb) == Common4Mer(cb, ca), "common4mer-is-symmetric")
	vReach("end")
}
