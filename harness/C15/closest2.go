// Code generated from harness/C15/closest.go by tools/sync_generated.sh; DO NOT EDIT.
package obitag2

import (
	"git.metabarcoding.org/obitools/obitools4/obitools4/pkg/obialign"
	"git.metabarcoding.org/obitools/obitools4/obitools4/pkg/obikmer"
	"git.metabarcoding.org/obitools/obitools4/obitools4/pkg/obiseq"
)

// C15, assume/guarantee: the search loop of obitag (FindClosests: 4-mer prefilter, early break, bounded
// distance kernel, tie collection) is run on ABSTRACT reference profiles.  For each reference i the solver
// chooses its true LCS distance d[i], its alignment length and its shared 4-mer count cw[i], constrained only by
//   L1  the contracts of the distance kernels (exact within the requested bound, else "not found or beyond the
//       bound"; D1Or0 = 0 / 1 / -1) - decided for the real kernels by the C09 checks;
//   L2  the 4-mer lemma  cw >= max(|q|,|r|) - 3 - 4 d  and  cw <= min(|q|,|r|) - 3  - decided on real
//       nucleotides by c15-lemma.
// Lengths are concrete per instance.  A satisfying profile is an abstract counterexample: the native replay
// materialises it (real sequences with those lengths, searched around the profile) before anything is reported.

//verif:stub MOD/pkg/obikmer.Count4Mer = vCount4Mer
//verif:stub MOD/pkg/obikmer.Common4Mer = vCommon4Mer
//verif:stub MOD/pkg/obialign.FastLCSScore = vFastLCSScore
//verif:stub MOD/pkg/obialign.D1Or0 = vD1Or0

const vMaxRef = 3

var (
	vQLen   int
	vRLen   [vMaxRef]int
	vD      [vMaxRef]int // true LCS distance
	vAli    [vMaxRef]int // shortest alignment length achieving the LCS
	vCW     [vMaxRef]int // shared 4-mers with the query
	vBeyond [vMaxRef]int // what the bounded kernel answers beyond its bound: 0 = not found, 1 = a pair beyond the bound
	vTabs   [vMaxRef + 1]obikmer.Table4mer
)

func vRefIndex(s *obiseq.BioSequence) int { return int(s.Id()[0] - '0') }

func vCount4Mer(seq *obiseq.BioSequence, buffer *[]byte, counts *obikmer.Table4mer) *obikmer.Table4mer {
	return &vTabs[vMaxRef] // the query's table
}

func vCommon4Mer(count1, count2 *obikmer.Table4mer) int {
	for i := 0; i < vMaxRef; i++ {
		if count2 == &vTabs[i] {
			return vCW[i]
		}
	}
	return 0
}

func vFastLCSScore(seqA, seqB *obiseq.BioSequence, maxError int, buffer *[]uint64) (int, int) {
	i := vRefIndex(seqB)
	if maxError < 0 || vD[i] <= maxError {
		return vAli[i] - vD[i], vAli[i]
	}
	if vBeyond[i] == 0 {
		return -1, -1
	}
	return vAli[i] - vD[i], vAli[i] // a pair that is itself beyond the bound
}

func vD1Or0(seq1, seq2 *obiseq.BioSequence) (int, int, byte, byte) {
	i := vRefIndex(seq2)
	switch vD[i] {
	case 0:
		return 0, -1, 0, 0
	case 1:
		return 1, 0, 'a', 'c'
	}
	return -1, -1, 0, 0
}

func vMax(a, b int) int {
	if a > b {
		return a
	}
	return b
}

func vMin(a, b int) int {
	if a < b {
		return a
	}
	return b
}

func vAbs(a int) int {
	if a < 0 {
		return -a
	}
	return a
}

func VerifC15_SearchLoop2(lq, l0, l1, l2 int) {
	lens := []int{l0, l1, l2}
	nref := 3
	if l2 == 0 {
		nref = 2
	}
	if lq < 4 || l0 < 4 || l1 < 4 || (nref == 3 && l2 < 4) {
		vSkip()
	}
	// abstract profiles (inputs first)
	var d, ali, cw, beyond [vMaxRef]int
	for i := 0; i < nref; i++ {
		d[i], ali[i], cw[i], beyond[i] = vInt(0, 12), vInt(0, 24), vInt(0, 12), vInt(0, 1)
	}
	if !vSymbolic() {
		vMaterialise(lq, lens[:nref], d[:nref], cw[:nref])
		return
	}
	vQLen = lq
	for i := 0; i < nref; i++ {
		hi, lo := vMax(lq, lens[i]), vMin(lq, lens[i])
		// a distance profile a pair of sequences of these lengths can have
		vAssume(d[i] >= hi-lo && d[i] <= hi)
		vAssume(ali[i] >= hi && ali[i] <= lq+lens[i] && ali[i]-d[i] >= 0 && ali[i]-d[i] <= lo)
		vAssume(d[i] > 1 || ali[i] == hi)
		// L2: the 4-mer lemma
		vAssume(cw[i] >= 0 && cw[i] <= lo-3 && cw[i] >= hi-3-4*d[i])
		vRLen[i], vD[i], vAli[i], vCW[i], vBeyond[i] = lens[i], d[i], ali[i], cw[i], beyond[i]
	}
	// the nucleotides are irrelevant to the abstract kernels, except that a search loop may compare two
	// sequences for identity directly (obitag2 does when the best distance is 0): the first base of a
	// reference equals the first base of the query exactly when its distance is 0
	qb := make([]byte, lq)
	query := obiseq.NewBioSequence("q", qb, "")
	refs := obiseq.MakeBioSequenceSlice()
	var tabs []*obikmer.Table4mer
	for i := 0; i < nref; i++ {
		rb := make([]byte, lens[i])
		if d[i] != 0 {
			rb[0] = 1
		}
		refs = append(refs, obiseq.NewBioSequence(string([]byte{byte('0' + i)}), rb, ""))
		tabs = append(tabs, &vTabs[i])
	}
	_, maxe, _, _, idxs := FindClosests(query, refs, tabs, false)
	best := 1 << 30
	for i := 0; i < nref; i++ {
		if d[i] < best {
			best = d[i]
		}
	}
	vAssert(maxe == best, "search-distance-is-the-minimum-over-all-references")
	ok := true
	for i := 0; i < nref; i++ {
		listed := 0
		for _, x := range idxs {
			if x == i {
				listed++
			}
		}
		if d[i] == best {
			ok = ok && listed == 1
		} else {
			ok = ok && listed == 0
		}
	}
	vAssert(ok, "search-returns-exactly-the-references-at-minimal-distance")
	vReach("end")
}

// ---------- native materialisation of an abstract counterexample ----------

func vrDist(a, b []byte) (int, int) {
	n, m := len(a), len(b)
	S := make([]int, (n+1)*(m+1))
	L := make([]int, (n+1)*(m+1))
	w := m + 1
	for j := 0; j <= m; j++ {
		L[j] = j
	}
	for i := 0; i <= n; i++ {
		L[i*w] = i
	}
	for i := 1; i <= n; i++ {
		for j := 1; j <= m; j++ {
			s, l := S[(i-1)*w+j-1], L[(i-1)*w+j-1]+1
			if a[i-1] == b[j-1] {
				s++
			}
			s2, l2 := S[(i-1)*w+j], L[(i-1)*w+j]+1
			if s2 > s || (s2 == s && l2 < l) {
				s, l = s2, l2
			}
			s3, l3 := S[i*w+j-1], L[i*w+j-1]+1
			if s3 > s || (s3 == s && l3 < l) {
				s, l = s3, l3
			}
			S[i*w+j], L[i*w+j] = s, l
		}
	}
	return L[n*w+m] - S[n*w+m], L[n*w+m]
}

// the property on real sequences, with the real kernels and tables
func vCheckReal(q []byte, raw [][]byte) bool {
	query := obiseq.NewBioSequence("q", q, "")
	refs := obiseq.MakeBioSequenceSlice()
	var tabs []*obikmer.Table4mer
	for i := range raw {
		r := obiseq.NewBioSequence(string([]byte{byte('0' + i)}), raw[i], "")
		refs = append(refs, r)
		tabs = append(tabs, obikmer.Count4Mer(r, nil, nil))
	}
	_, maxe, _, _, idxs := FindClosests(query, refs, tabs, false)
	best := 1 << 30
	d := make([]int, len(raw))
	for i := range raw {
		d[i], _ = vrDist(q, raw[i])
		if d[i] < best {
			best = d[i]
		}
	}
	if maxe != best {
		return false
	}
	for i := range raw {
		listed := 0
		for _, x := range idxs {
			if x == i {
				listed++
			}
		}
		if (d[i] == best) != (listed == 1) || listed > 1 {
			return false
		}
	}
	return true
}

// build a reference of length l at LCS distance about d from q, sharing about cw 4-mers: length difference as a
// suffix insertion/deletion, the remaining edits as substitutions spread (few shared 4-mers) or packed at the
// end (many shared 4-mers); a small deterministic search around these placements
func vMaterialise(lq int, lens, d, cw []int) {
	var _ = obialign.D1Or0
	alphabet := []byte("acgt")
	rnd := uint64(88172645463325252)
	next := func() uint64 {
		rnd ^= rnd << 13
		rnd ^= rnd >> 7
		rnd ^= rnd << 17
		return rnd
	}
	for try := 0; try < 3000; try++ {
		q := make([]byte, lq)
		for i := range q {
			q[i] = alphabet[next()%4]
		}
		raw := make([][]byte, len(lens))
		for r := range lens {
			b := make([]byte, lens[r])
			for i := range b {
				if i < lq {
					b[i] = q[i]
				} else {
					b[i] = alphabet[next()%4]
				}
			}
			subs := d[r] - vAbs(lens[r]-lq)
			n := vMin(lens[r], lq)
			for k := 0; k < subs && n > 0; k++ {
				var pos int
				switch (try + r) % 3 {
				case 0: // spread: destroy as many windows as possible
					pos = (k*4 + 3) % n
				case 1: // packed at the end
					pos = n - 1 - k%n
				default:
					pos = int(next() % uint64(n))
				}
				b[pos] = alphabet[(int(b[pos]-'a')+1+int(next()%3))%4]
				if b[pos] == q[pos%lq] {
					b[pos] = alphabet[(int(next() % 4))]
				}
			}
			raw[r] = b
		}
		if !vCheckReal(q, raw) {
			vObserve("materialised-at-try", try)
			vAssert(false, "search-distance-is-the-minimum-over-all-references")
			vAssert(false, "search-returns-exactly-the-references-at-minimal-distance")
			return
		}
	}
}
