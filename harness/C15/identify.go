package obitag

import (
	"fmt"

	"git.metabarcoding.org/obitools/obitools4/obitools4/pkg/obikmer"
	"git.metabarcoding.org/obitools/obitools4/obitools4/pkg/obiseq"
	"git.metabarcoding.org/obitools/obitools4/obitools4/pkg/obitax"
)

// C15 (assignment): Identify indexes a best-matching reference lazily and keeps the index on that reference.
// Two queries in a row: what the second one is assigned must not depend on the first one.  The references are
// three distinct sequences of three distinct species; each query is a copy of one of them (chosen per
// instance), so its only best match is that reference at distance 0 and the assigned taxon is that species.
// In the symbolic run the search and the index builder are replaced by exactly that (they are decided by
// c15-loop and c15-index); the native replay runs the real ones on the same data.  Everything is concrete here:
// the engine acts as an interpreter of Identify; the check is kept because the order dependence needs two calls.

//verif:stub MOD/pkg/obitools/obitag.FindClosests = vFindExact
//verif:stub MOD/pkg/obitools/obirefidx.IndexSequence = vIndexOwnTaxon

var vIdentifyRefs = []string{"acgtacgtacgtaaaa", "ttgcatgcatgcatcc", "ggatccggatccggat"}

func vFindExact(sequence *obiseq.BioSequence, references obiseq.BioSequenceSlice, refcounts []*obikmer.Table4mer,
	runExact bool) (obiseq.BioSequenceSlice, int, float64, string, []int) {
	for i, r := range references {
		if string(r.Sequence()) == string(sequence.Sequence()) {
			return obiseq.BioSequenceSlice{r}, 0, 1.0, r.Id(), []int{i}
		}
	}
	return obiseq.BioSequenceSlice{}, -1, 0.0, "", nil
}

func vIndexOwnTaxon(seqidx int, references obiseq.BioSequenceSlice, kmers *[]*obikmer.Table4mer,
	taxa *obitax.TaxonSet, taxo *obitax.Taxonomy) map[int]string {
	t := (*taxa)[seqidx]
	return map[int]string{0: fmt.Sprintf("%d@%s@%s", t.Taxid(), t.ScientificName(), t.Rank())}
}

func VerifC15_Identify(b1, b2 int) {
	taxo := obitax.NewTaxonomy()
	taxo.AddNewTaxa(1, 1, "no rank", false, false)
	taxo.AddNewTaxa(2, 1, "genus", false, false)
	for k := 0; k < 3; k++ {
		taxo.AddNewTaxa(10+k, 2, "species", false, false)
	}
	taxo.ReindexParent()
	refs := obiseq.MakeBioSequenceSlice()
	var counts []*obikmer.Table4mer
	taxa := make(obitax.TaxonSet, 3)
	for k, s := range vIdentifyRefs {
		r := obiseq.NewBioSequence(string([]byte{byte('0' + k)}), []byte(s), "")
		r.SetTaxid(10 + k)
		refs = append(refs, r)
		counts = append(counts, obikmer.Count4Mer(r, nil, nil))
		taxa[k], _ = taxo.Taxon(10 + k)
	}
	q1 := obiseq.NewBioSequence("q1", []byte(vIdentifyRefs[b1]), "")
	q2 := obiseq.NewBioSequence("q2", []byte(vIdentifyRefs[b2]), "")
	Identify(q1, refs, counts, taxa, taxo, false)
	Identify(q2, refs, counts, taxa, taxo, false)
	vAssert(q1.Taxid() == 10+b1, "identify-first-query-gets-the-taxon-of-its-match")
	vAssert(q2.Taxid() == 10+b2, "identify-assignment-does-not-depend-on-earlier-queries")
	vReach("end")
}
