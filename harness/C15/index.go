package obirefidx

import (
	"git.metabarcoding.org/obitools/obitools4/obitools4/pkg/obikmer"
	"git.metabarcoding.org/obitools/obitools4/obitools4/pkg/obiseq"
	"git.metabarcoding.org/obitools/obitools4/obitools4/pkg/obitax"
)

// C15 (reference index): IndexSequence maps each recorded distance to the deepest ancestor of the indexed
// sequence's taxon that is a common ancestor of all references within that distance.  Same assume/guarantee
// scheme as the obitag search loop: abstract reference profiles (distance, alignment length, shared 4-mers)
// constrained by the kernel contracts and the 4-mer lemma; concrete lengths; a small concrete taxonomy with
// the taxon of each reference chosen by the solver.

//verif:stub MOD/pkg/obikmer.Common4Mer = vCommon4Mer
//verif:stub MOD/pkg/obialign.FastLCSScore = vFastLCSScore
//verif:stub MOD/pkg/obialign.D1Or0 = vD1Or0

const vMaxRef = 4

var (
	vD      [vMaxRef]int
	vAli    [vMaxRef]int
	vCW     [vMaxRef]int
	vBeyond [vMaxRef]int
	vTabs   [vMaxRef]obikmer.Table4mer
)

func vRefIndex(s *obiseq.BioSequence) int { return int(s.Id()[0] - '0') }

func vCommon4Mer(count1, count2 *obikmer.Table4mer) int {
	for i := 0; i < vMaxRef; i++ {
		if count2 == &vTabs[i] {
			return vCW[i]
		}
	}
	return 0
}

func vFastLCSScore(seqA, seqB *obiseq.BioSequence, maxError int, buffer *[]uint64) (int, int) {
	i := vRefIndex(seqB)
	if maxError < 0 || vD[i] <= maxError {
		return vAli[i] - vD[i], vAli[i]
	}
	if vBeyond[i] == 0 {
		return -1, -1
	}
	return vAli[i] - vD[i], vAli[i]
}

func vD1Or0(seq1, seq2 *obiseq.BioSequence) (int, int, byte, byte) {
	i := vRefIndex(seq2)
	switch vD[i] {
	case 0:
		return 0, -1, 0, 0
	case 1:
		return 1, 0, 'a', 'c'
	}
	return -1, -1, 0, 0
}

func vMax(a, b int) int {
	if a > b {
		return a
	}
	return b
}

func vMin(a, b int) int {
	if a < b {
		return a
	}
	return b
}

// taxonomy: 1 root - 2 family - 3 genus - 4 species (the indexed sequence); other taxa: 5 species of genus 3,
// 6 genus of family 2, 7 species of genus 6, 8 family under the root, 9 species of family 8
var vParents = map[int]int{1: 1, 2: 1, 3: 2, 4: 3, 5: 3, 6: 2, 7: 6, 8: 1, 9: 8}
var vRanks = map[int]string{1: "no rank", 2: "family", 3: "genus", 4: "species", 5: "species", 6: "genus", 7: "species", 8: "family", 9: "species"}

func vTaxonomy() *obitax.Taxonomy {
	t := obitax.NewTaxonomy()
	for id := 1; id <= 9; id++ {
		t.AddNewTaxa(id, vParents[id], vRanks[id], false, false)
	}
	t.ReindexParent()
	return t
}

// level of the LCA of taxon 4 with taxon x on the lineage 1 (0) > 2 (1) > 3 (2) > 4 (3)
func vLcaLevel(x int) int {
	switch x {
	case 4:
		return 3
	case 5:
		return 2
	case 6, 7:
		return 1
	}
	return 0
}

var vChoices = []int{4, 5, 7, 9, 6}

func VerifC15_IndexSequence(l0, l1, l2, l3 int) { vIndexSequence(l0, l1, l2, l3, -1) }

// the same with the taxa of references 1..3 fixed by the instance (txcode = their choices in base 5), which
// makes four references of unequal lengths affordable
func VerifC15_IndexSequenceTaxa(l0, l1, l2, l3, txcode int) { vIndexSequence(l0, l1, l2, l3, txcode) }

func vIndexSequence(l0, l1, l2, l3, txcode int) {
	lens := []int{l0, l1, l2, l3}
	nref := 4
	if l3 == 0 {
		nref = 3
	}
	for i := 0; i < nref; i++ {
		if lens[i] < 4 {
			vSkip()
		}
	}
	lq := l0 // reference 0 is the indexed sequence itself
	var d, ali, cw, beyond, tx [vMaxRef]int
	for i := 1; i < nref; i++ {
		d[i], ali[i], cw[i], beyond[i], tx[i] = vInt(0, 12), vInt(0, 24), vInt(0, 12), vInt(0, 1), vInt(0, 4)
	}
	if !vSymbolic() {
		return // abstract profiles are not replayable: see DESIGN (C15); the check reports them as inconclusive
	}
	d[0], ali[0], cw[0], tx[0] = 0, lq, lq-3, 0
	if txcode >= 0 {
		for i := 1; i < nref; i++ {
			tx[i] = txcode % 5
			txcode /= 5
		}
	}
	taxo := vTaxonomy()
	taxa := make(obitax.TaxonSet, nref)
	refs := obiseq.MakeBioSequenceSlice()
	tabs := make([]*obikmer.Table4mer, 0, nref)
	level := make([]int, nref)
	for i := 0; i < nref; i++ {
		hi, lo := vMax(lq, lens[i]), vMin(lq, lens[i])
		vAssume(d[i] >= hi-lo && d[i] <= hi)
		vAssume(ali[i] >= hi && ali[i] <= lq+lens[i] && ali[i]-d[i] >= 0 && ali[i]-d[i] <= lo)
		vAssume(d[i] > 1 || ali[i] == hi)
		vAssume(cw[i] >= 0 && cw[i] <= lo-3 && cw[i] >= hi-3-4*d[i])
		vD[i], vAli[i], vCW[i], vBeyond[i] = d[i], ali[i], cw[i], beyond[i]
		taxid := 4
		for k, c := range vChoices {
			if tx[i] == k {
				taxid = c
			}
		}
		level[i] = 0
		for k, c := range vChoices {
			if tx[i] == k {
				level[i] = vLcaLevel(c)
			}
		}
		node, _ := taxo.Taxon(taxid)
		taxa[i] = node
		refs = append(refs, obiseq.NewBioSequence(string([]byte{byte('0' + i)}), make([]byte, lens[i]), ""))
		tabs = append(tabs, &vTabs[i])
	}
	idx := IndexSequence(0, refs, &tabs, &taxa, taxo)

	// every recorded distance D maps to the LCA of the indexed taxon with the taxa of all references within D:
	// on the lineage root(0) > family(1) > genus(2) > species(3) that is the level min{level[i] : d[i] <= D}
	ok := true
	for D := 0; D <= 12; D++ {
		got, has := idx[D]
		if has {
			want := 3
			for i := 0; i < nref; i++ {
				if d[i] <= D && level[i] < want {
					want = level[i]
				}
			}
			lineage := []byte{'1', '2', '3', '4'}
			ok = ok && len(got) > 2 && got[1] == '@' && got[0] == lineage[want]
		}
	}
	vAssert(ok, "index-maps-each-recorded-distance-to-the-lca-of-the-references-within-it")
	vReach("end")
}
