package obirefidx

import (
	"git.metabarcoding.org/obitools/obitools4/obitools4/pkg/obikmer"
	"git.metabarcoding.org/obitools/obitools4/obitools4/pkg/obiseq"
	"git.metabarcoding.org/obitools/obitools4/obitools4/pkg/obitax"
)

// C15 (reference index): IndexSequence maps each recorded distance to the deepest ancestor of the indexed
// sequence's taxon that is a common ancestor of all references within that distance.  Same assume/guarantee
// scheme as the obitag search loop: abstract reference profiles (distance, alignment length, shared 4-mers)
// constrained by the kernel contracts and the 4-mer lemma; concrete lengths; a small concrete taxonomy with
// the taxon of each reference chosen by the solver.

//verif:stub MOD/pkg/obikmer.Common4Mer = vCommon4Mer
//verif:stub MOD/pkg/obialign.FastLCSScore = vFastLCSScore
//verif:stub MOD/pkg/obialign.D1Or0 = vD1Or0

const vMaxRef = 6

var (
	vD      [vMaxRef]int
	vAli    [vMaxRef]int
	vCW     [vMaxRef]int
	vBeyond [vMaxRef]int
	vTabs   [vMaxRef]obikmer.Table4mer
)

func vRefIndex(s *obiseq.BioSequence) int { return int(s.Id()[0] - '0') }

func vCommon4Mer(count1, count2 *obikmer.Table4mer) int {
	for i := 0; i < vMaxRef; i++ {
		if count2 == &vTabs[i] {
			return vCW[i]
		}
	}
	return 0
}

func vFastLCSScore(seqA, seqB *obiseq.BioSequence, maxError int, buffer *[]uint64) (int, int) {
	i := vRefIndex(seqB)
	if maxError < 0 || vD[i] <= maxError {
		return vAli[i] - vD[i], vAli[i]
	}
	if vBeyond[i] == 0 {
		return -1, -1
	}
	return vAli[i] - vD[i], vAli[i]
}

func vD1Or0(seq1, seq2 *obiseq.BioSequence) (int, int, byte, byte) {
	i := vRefIndex(seq2)
	switch vD[i] {
	case 0:
		return 0, -1, 0, 0
	case 1:
		return 1, 0, 'a', 'c'
	}
	return -1, -1, 0, 0
}

func vMax(a, b int) int {
	if a > b {
		return a
	}
	return b
}

func vMin(a, b int) int {
	if a < b {
		return a
	}
	return b
}

// taxonomy: 1 root - 2 family - 3 genus - 4 species (the indexed sequence); other taxa: 5 species of genus 3,
// 6 genus of family 2, 7 species of genus 6, 8 family under the root, 9 species of family 8
var vParents = map[int]int{1: 1, 2: 1, 3: 2, 4: 3, 5: 3, 6: 2, 7: 6, 8: 1, 9: 8}
var vRanks = map[int]string{1: "no rank", 2: "family", 3: "genus", 4: "species", 5: "species", 6: "genus", 7: "species", 8: "family", 9: "species"}

func vTaxonomy() *obitax.Taxonomy {
	t := obitax.NewTaxonomy()
	for id := 1; id <= 9; id++ {
		t.AddNewTaxa(id, vParents[id], vRanks[id], false, false)
	}
	t.ReindexParent()
	return t
}

// level of the LCA of taxon 4 with taxon x on the lineage 1 (0) > 2 (1) > 3 (2) > 4 (3)
func vLcaLevel(x int) int {
	switch x {
	case 4:
		return 3
	case 5:
		return 2
	case 6, 7:
		return 1
	}
	return 0
}

var vChoices = []int{4, 5, 7, 9, 6}

func VerifC15_IndexSequence(l0, l1, l2, l3 int) { vIndexSequence(l0, l1, l2, l3, 0, -1) }

// the same with the taxa of references 1..3 fixed by the instance (txcode = their choices in base 5), which
// makes four references of unequal lengths affordable
// This variant is a finder: it also assumes that d differences destroy at least min(d, windows) of the shared
// 4-mers (true of substitutions that create no repeated word), which steers the solver towards profiles real
// sequences can have; a model is then materialised natively - real sequences, real kernels, distances from a
// textbook dynamic program - and only a real violation is reported.
func VerifC15_IndexSequenceTaxa(l0, l1, l2, l3, l4, txcode int) { vIndexSequence(l0, l1, l2, l3, l4, txcode) }

func vIndexSequence(l0, l1, l2, l3, l4, txcode int) {
	lens := []int{l0, l1, l2, l3, l4}
	nref := 5
	if l4 == 0 {
		nref = 4
	}
	if l3 == 0 {
		nref = 3
	}
	for i := 0; i < nref; i++ {
		if lens[i] < 4 {
			vSkip()
		}
	}
	lq := l0 // reference 0 is the indexed sequence itself
	var d, ali, cw, beyond, tx [vMaxRef]int
	for i := 1; i < nref; i++ {
		d[i], ali[i], cw[i], beyond[i], tx[i] = vInt(0, 12), vInt(0, 24), vInt(0, 12), vInt(0, 1), vInt(0, 4)
	}
	d[0], ali[0], cw[0], tx[0] = 0, lq, lq-3, 0
	finder := txcode >= 0
	if finder {
		for i := 1; i < nref; i++ {
			tx[i] = txcode % 5
			txcode /= 5
		}
	}
	if !vSymbolic() {
		// abstract profiles are not replayable as such.  The finder variant materialises them (real sequences);
		// the plain variant reports a model as inconclusive (see DESIGN, C15)
		if finder {
			vMaterialiseIndex(lens[:nref], d[:nref], cw[:nref], tx[:nref])
		}
		return
	}
	taxo := vTaxonomy()
	taxa := make(obitax.TaxonSet, nref)
	refs := obiseq.MakeBioSequenceSlice()
	tabs := make([]*obikmer.Table4mer, 0, nref)
	level := make([]int, nref)
	for i := 0; i < nref; i++ {
		hi, lo := vMax(lq, lens[i]), vMin(lq, lens[i])
		vAssume(d[i] >= hi-lo && d[i] <= hi)
		vAssume(ali[i] >= hi && ali[i] <= lq+lens[i] && ali[i]-d[i] >= 0 && ali[i]-d[i] <= lo)
		vAssume(d[i] > 1 || ali[i] == hi)
		vAssume(cw[i] >= 0 && cw[i] <= lo-3 && cw[i] >= hi-3-4*d[i])
		if finder {
			vAssume(cw[i] <= lo-3-vMin(d[i], lo-3))
		}
		vD[i], vAli[i], vCW[i], vBeyond[i] = d[i], ali[i], cw[i], beyond[i]
		taxid := 4
		for k, c := range vChoices {
			if tx[i] == k {
				taxid = c
			}
		}
		level[i] = 0
		for k, c := range vChoices {
			if tx[i] == k {
				level[i] = vLcaLevel(c)
			}
		}
		node, _ := taxo.Taxon(taxid)
		taxa[i] = node
		refs = append(refs, obiseq.NewBioSequence(string([]byte{byte('0' + i)}), make([]byte, lens[i]), ""))
		tabs = append(tabs, &vTabs[i])
	}
	idx := IndexSequence(0, refs, &tabs, &taxa, taxo)

	// every recorded distance D maps to the LCA of the indexed taxon with the taxa of all references within D:
	// on the lineage root(0) > family(1) > genus(2) > species(3) that is the level min{level[i] : d[i] <= D}
	ok := true
	for D := 0; D <= 12; D++ {
		got, has := idx[D]
		if has {
			want := 3
			for i := 0; i < nref; i++ {
				if d[i] <= D && level[i] < want {
					want = level[i]
				}
			}
			lineage := []byte{'1', '2', '3', '4'}
			ok = ok && len(got) > 2 && got[1] == '@' && got[0] == lineage[want]
		}
	}
	vAssert(ok, "index-maps-each-recorded-distance-to-the-lca-of-the-references-within-it")
	vReach("end")
}

// ---------- native materialisation (finder variant) ----------

func vrIndexDist(a, b []byte) int {
	n, m := len(a), len(b)
	S := make([]int, (n+1)*(m+1))
	L := make([]int, (n+1)*(m+1))
	w := m + 1
	for j := 0; j <= m; j++ {
		L[j] = j
	}
	for i := 0; i <= n; i++ {
		L[i*w] = i
	}
	for i := 1; i <= n; i++ {
		for j := 1; j <= m; j++ {
			s, l := S[(i-1)*w+j-1], L[(i-1)*w+j-1]+1
			if a[i-1] == b[j-1] {
				s++
			}
			s2, l2 := S[(i-1)*w+j], L[(i-1)*w+j]+1
			if s2 > s || (s2 == s && l2 < l) {
				s, l = s2, l2
			}
			s3, l3 := S[i*w+j-1], L[i*w+j-1]+1
			if s3 > s || (s3 == s && l3 < l) {
				s, l = s3, l3
			}
			S[i*w+j], L[i*w+j] = s, l
		}
	}
	return L[n*w+m] - S[n*w+m]
}

// the property on real sequences with the real kernels: true = holds
func vCheckRealIndex(raw [][]byte, tx []int) bool {
	taxo := vTaxonomy()
	n := len(raw)
	taxa := make(obitax.TaxonSet, n)
	refs := obiseq.MakeBioSequenceSlice()
	tabs := make([]*obikmer.Table4mer, 0, n)
	level := make([]int, n)
	for i := range raw {
		taxid := vChoices[tx[i]]
		level[i] = vLcaLevel(taxid)
		node, _ := taxo.Taxon(taxid)
		taxa[i] = node
		r := obiseq.NewBioSequence(string([]byte{byte('0' + i)}), raw[i], "")
		refs = append(refs, r)
		tabs = append(tabs, obikmer.Count4Mer(r, nil, nil))
	}
	idx := IndexSequence(0, refs, &tabs, &taxa, taxo)
	dist := make([]int, n)
	for i := range raw {
		dist[i] = vrIndexDist(raw[0], raw[i])
	}
	lineage := []byte{'1', '2', '3', '4'}
	for D, got := range idx {
		want := 3
		for i := 0; i < n; i++ {
			if dist[i] <= D && level[i] < want {
				want = level[i]
			}
		}
		if !(len(got) > 2 && got[1] == '@' && got[0] == lineage[want]) {
			return false
		}
	}
	return true
}

// real sequences following the profile: reference i has the length of the instance, about d[i] differences from
// the indexed sequence (the length difference as a suffix, the rest as substitutions packed at one end when it
// shares many 4-mers, spread when it shares few)
func vMaterialiseIndex(lens, d, cw, tx []int) {
	alphabet := []byte("acgt")
	rnd := uint64(2463534242)
	next := func() uint64 {
		rnd ^= rnd << 13
		rnd ^= rnd >> 7
		rnd ^= rnd << 17
		return rnd
	}
	lq := lens[0]
	for try := 0; try < 20000; try++ {
		q := make([]byte, lq)
		for i := range q {
			q[i] = alphabet[next()%4]
		}
		raw := make([][]byte, len(lens))
		raw[0] = q
		for r := 1; r < len(lens); r++ {
			b := make([]byte, lens[r])
			for i := range b {
				if i < lq {
					b[i] = q[i]
				} else {
					b[i] = alphabet[next()%4]
				}
			}
			n := vMin(lens[r], lq)
			diff := lens[r] - lq
			if diff < 0 {
				diff = -diff
			}
			subs := d[r] - diff
			if try >= 1000 {
				subs += int(next()%3) - 1 // later tries wander around the profile
			}
			packed := cw[r] >= n-3-subs-1
			mode := int(next() % 4)
			for k := 0; k < subs && n > 0; k++ {
				var pos int
				switch {
				case mode == 0 && packed:
					pos = n - 1 - k%n
				case mode == 0:
					pos = (k*4 + 3) % n
				case mode == 1:
					pos = n - 1 - k%n
				case mode == 2:
					pos = (k*4 + 3) % n
				default:
					pos = int(next() % uint64(n))
				}
				c := alphabet[(int(next()%3)+1+vIndexOf(alphabet, b[pos]))%4]
				b[pos] = c
			}
			raw[r] = b
		}
		if !vCheckRealIndex(raw, tx) {
			vObserve("materialised-at-try", try)
			vAssert(false, "index-maps-each-recorded-distance-to-the-lca-of-the-references-within-it")
			return
		}
	}
}

func vIndexOf(al []byte, c byte) int {
	for i, x := range al {
		if x == c {
			return i
		}
	}
	return 0
}
