package obifp

// Reference arithmetic for C20: little-endian limb vectors (value = sum w[i]*2^(64 i)),
// written independently of the code under test (no math/bits carries, plain comparisons).

//verif:stub math/bits.Mul64 = vMul64
//verif:stub math/bits.Div64 = vDiv64

// vMul64 replaces math/bits.Mul64 in the symbolic run: the two halves of the product are uninterpreted
// functions constrained by lemmas that are true of the real multiplication.  Natively it is the real one.
func vMul64(x, y uint64) (hi, lo uint64) {
	if vMulMode == 2 {
		// exact product; the harness keeps one factor concrete so that it is shifts and additions
		return vMulExact(x, y)
	}
	hi = vUF("mulhi64", x, y)
	lo = vUF("mullo64", x, y)
	// x*y = 0  <=>  x = 0 or y = 0
	vAssume(((x == 0 || y == 0) && hi == 0 && lo == 0) || (x != 0 && y != 0 && (hi != 0 || lo != 0)))
	// 1 is neutral
	vAssume(x != 1 || (hi == 0 && lo == y))
	vAssume(y != 1 || (hi == 0 && lo == x))
	// (2^64-1)^2 = 2^128 - 2^65 + 1 : the high half is at most 2^64-2, and hi < min(x,y) unless it is 0
	vAssume(hi <= 0xFFFFFFFFFFFFFFFE)
	vAssume(hi == 0 || (hi < x && hi < y))
	return
}

// vMulMode 0: uninterpreted products (proves the limb/carry logic for every input).
// vMulMode 2: exact products with one concrete factor taken from vCatalogue (finds genuine counterexamples).
var vMulMode int

var vCatalogue = [...]uint64{0, 1, 2, 3, 1 << 32, 1<<32 + 1, 1 << 63, 0xFFFFFFFFFFFFFFFF, 0xFFFFFFFFFFFFFFFE,
	0x8000000000000001}

func vCat(i int) uint64 {
	if i < 0 || i >= len(vCatalogue) {
		vSkip()
	}
	return vCatalogue[i]
}

// vDiv64 replaces math/bits.Div64: quotient and remainder are uninterpreted, tied to the product by the
// division identity  hi:lo = q*y + r, r < y  (expressed with the same multiplication symbols).
func vDiv64(hi, lo, y uint64) (q, r uint64) {
	if y == 0 {
		panic("integer divide by zero")
	}
	if y <= hi {
		panic("integer overflow")
	}
	q = vUF("divq64", hi, lo, y)
	r = vUF("divr64", hi, lo, y)
	ph, pl := vMul64(q, y)
	s := pl + r
	c := uint64(0)
	if s < pl {
		c = 1
	}
	vAssume(r < y && s == lo && ph+c == hi)
	return
}

func vrCarryAdd(a, b, c uint64) (s, co uint64) {
	s = a + b
	if s < a {
		co = 1
	}
	s2 := s + c
	if s2 < s {
		co = 1
	}
	return s2, co
}

func vrBorrowSub(a, b, c uint64) (d, bo uint64) {
	d = a - b
	if a < b {
		bo = 1
	}
	d2 := d - c
	if d < c {
		bo = 1
	}
	return d2, bo
}

// vrAdd: a + b over len(a) limbs; carry out
func vrAdd(a, b []uint64) ([]uint64, uint64) {
	r := make([]uint64, len(a))
	c := uint64(0)
	for i := range a {
		r[i], c = vrCarryAdd(a[i], b[i], c)
	}
	return r, c
}

func vrSub(a, b []uint64) ([]uint64, uint64) {
	r := make([]uint64, len(a))
	c := uint64(0)
	for i := range a {
		r[i], c = vrBorrowSub(a[i], b[i], c)
	}
	return r, c
}

// vrShl: (a << n) truncated to len(a) limbs; n is concrete in every instance
func vrShl(a []uint64, n uint) []uint64 {
	r := make([]uint64, len(a))
	q := int(n / 64)
	s := n % 64
	for i := range a {
		j := i + q
		if j < len(a) {
			r[j] |= a[i] << s
		}
		if s != 0 && j+1 < len(a) {
			r[j+1] |= a[i] >> (64 - s)
		}
	}
	return r
}

func vrShr(a []uint64, n uint) []uint64 {
	r := make([]uint64, len(a))
	q := int(n / 64)
	s := n % 64
	for i := range a {
		j := i - q
		if j >= 0 {
			r[j] |= a[i] >> s
		}
		if s != 0 && j-1 >= 0 {
			r[j-1] |= a[i] << (64 - s)
		}
	}
	return r
}

// vrCmp: -1, 0, 1
func vrCmp(a, b []uint64) int {
	for i := len(a) - 1; i >= 0; i-- {
		if a[i] < b[i] {
			return -1
		}
		if a[i] > b[i] {
			return 1
		}
	}
	return 0
}

func vrEq(a, b []uint64) bool {
	ok := true
	for i := range a {
		ok = ok && a[i] == b[i]
	}
	return ok
}

func vrIsZero(a []uint64) bool {
	ok := true
	for i := range a {
		ok = ok && a[i] == 0
	}
	return ok
}

// vrMul: full product, len(a)+len(b) limbs (schoolbook over vMul64)
func vrMul(a, b []uint64) []uint64 {
	r := make([]uint64, len(a)+len(b))
	for i := range a {
		carry := uint64(0)
		for j := range b {
			hi, lo := vMul64(a[i], b[j])
			// r[i+j] += lo + carry ; carry = hi + overflow bits (cannot overflow: hi <= 2^64-2)
			s, c1 := vrCarryAdd(r[i+j], lo, 0)
			s, c2 := vrCarryAdd(s, carry, 0)
			r[i+j] = s
			carry = hi + c1 + c2
		}
		r[i+len(b)] = carry
	}
	return r
}

func v64(u Uint64) []uint64   { return []uint64{u.w0} }
func v128(u Uint128) []uint64 { return []uint64{u.w0, u.w1} }
func v256(u Uint256) []uint64 { return []uint64{u.w0, u.w1, u.w2, u.w3} }

func vSym64() Uint64   { return Uint64{w0: vU64()} }
func vSym128() Uint128 { return Uint128{w1: vU64(), w0: vU64()} }
func vSym256() Uint256 { return Uint256{w3: vU64(), w2: vU64(), w1: vU64(), w0: vU64()} }
