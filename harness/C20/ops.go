package obifp

// C20 harnesses: every operation of Uint64/Uint128/Uint256 on full-width symbolic limbs against the
// limb-vector reference of ref.go.  Shift amounts are concrete per instance (one instance per amount).

func vTrunc(a []uint64, n int) []uint64 { return a[:n] }

// ---------- shifts ----------

func VerifC20_Shift(width int, n int) {
	un := uint(n)
	switch width {
	case 64:
		u := vSym64()
		l, r := u.LeftShift(un), u.RightShift(un)
		vAssert(vrEq(v64(l), vrShl(v64(u), un)), "u64-shl")
		vAssert(vrEq(v64(r), vrShr(v64(u), un)), "u64-shr")
	case 128:
		u := vSym128()
		l, r := u.LeftShift(un), u.RightShift(un)
		vAssert(vrEq(v128(l), vrShl(v128(u), un)), "u128-shl")
		vAssert(vrEq(v128(r), vrShr(v128(u), un)), "u128-shr")
	case 256:
		u := vSym256()
		l, r := u.LeftShift(un), u.RightShift(un)
		vAssert(vrEq(v256(l), vrShl(v256(u), un)), "u256-shl")
		vAssert(vrEq(v256(r), vrShr(v256(u), un)), "u256-shr")
	default:
		vSkip()
	}
	vReach("end")
}

// every shift amount at or beyond the width (symbolic amount, any 64-bit value): the result is zero
func VerifC20_ShiftBeyond(width int) {
	n := uint(vU64())
	vAssume(n >= uint(width))
	switch width {
	case 64:
		u := vSym64()
		vAssert(u.LeftShift(n).IsZero() && u.RightShift(n).IsZero(), "u64-shift-beyond-width")
	case 128:
		u := vSym128()
		vAssert(u.LeftShift(n).IsZero() && u.RightShift(n).IsZero(), "u128-shift-beyond-width")
	case 256:
		u := vSym256()
		vAssert(u.LeftShift(n).IsZero() && u.RightShift(n).IsZero(), "u256-shift-beyond-width")
	default:
		vSkip()
	}
	vReach("end")
}

// ---------- addition / subtraction: exact result iff it fits, overflow signalled iff it does not ----------

func VerifC20_AddSub(width int) {
	switch width {
	case 64:
		u, v := vSym64(), vSym64()
		es, ec := vrAdd(v64(u), v64(v))
		var s Uint64
		k := vCatch(func() { s = u.Add(v) })
		vAssert((k != 0) == (ec != 0), "u64-add-overflow-signal")
		vAssert(k != 0 || vrEq(v64(s), es), "u64-add-exact")
		ed, eb := vrSub(v64(u), v64(v))
		var d Uint64
		k = vCatch(func() { d = u.Sub(v) })
		vAssert((k != 0) == (eb != 0), "u64-sub-underflow-signal")
		vAssert(k != 0 || vrEq(v64(d), ed), "u64-sub-exact")
	case 128:
		u, v := vSym128(), vSym128()
		es, ec := vrAdd(v128(u), v128(v))
		var s Uint128
		k := vCatch(func() { s = u.Add(v) })
		vAssert((k != 0) == (ec != 0), "u128-add-overflow-signal")
		vAssert(k != 0 || vrEq(v128(s), es), "u128-add-exact")
		ed, eb := vrSub(v128(u), v128(v))
		var d Uint128
		k = vCatch(func() { d = u.Sub(v) })
		vAssert((k != 0) == (eb != 0), "u128-sub-underflow-signal")
		vAssert(k != 0 || vrEq(v128(d), ed), "u128-sub-exact")
		// Add64
		x := vU64()
		es, ec = vrAdd(v128(u), []uint64{x, 0})
		k = vCatch(func() { s = u.Add64(x) })
		vAssert((k != 0) == (ec != 0), "u128-add64-overflow-signal")
		vAssert(k != 0 || vrEq(v128(s), es), "u128-add64-exact")
	case 256:
		u, v := vSym256(), vSym256()
		es, ec := vrAdd(v256(u), v256(v))
		var s Uint256
		k := vCatch(func() { s = u.Add(v) })
		vAssert((k != 0) == (ec != 0), "u256-add-overflow-signal")
		vAssert(k != 0 || vrEq(v256(s), es), "u256-add-exact")
		ed, eb := vrSub(v256(u), v256(v))
		var d Uint256
		k = vCatch(func() { d = u.Sub(v) })
		vAssert((k != 0) == (eb != 0), "u256-sub-underflow-signal")
		vAssert(k != 0 || vrEq(v256(d), ed), "u256-sub-exact")
	default:
		vSkip()
	}
	vReach("end")
}

// ---------- comparisons and bitwise operations ----------

func vSign(c int) int {
	if c < 0 {
		return -1
	}
	if c > 0 {
		return 1
	}
	return 0
}

func VerifC20_CmpBits(width int) {
	switch width {
	case 64:
		u, v := vSym64(), vSym64()
		c := vrCmp(v64(u), v64(v))
		vAssert(vSign(u.Cmp(v)) == c, "u64-cmp")
		vAssert(u.Equals(v) == (c == 0) && u.LessThan(v) == (c < 0) && u.GreaterThan(v) == (c > 0) &&
			u.LessThanOrEqual(v) == (c <= 0) && u.GreaterThanOrEqual(v) == (c >= 0), "u64-order-predicates")
		vAssert(u.And(v).w0 == u.w0&v.w0 && u.Or(v).w0 == u.w0|v.w0 && u.Xor(v).w0 == u.w0^v.w0 && u.Not().w0 == ^u.w0, "u64-bitwise")
		vAssert(u.IsZero() == vrIsZero(v64(u)) && u.Zero().IsZero() && u.MaxValue().Not().IsZero(), "u64-zero-max")
		vAssert(u.AsUint64() == u.w0 && u.Set64(v.w0).w0 == v.w0, "u64-as-set")
	case 128:
		u, v := vSym128(), vSym128()
		c := vrCmp(v128(u), v128(v))
		vAssert(vSign(u.Cmp(v)) == c, "u128-cmp")
		vAssert(u.Equals(v) == (c == 0) && u.LessThan(v) == (c < 0) && u.GreaterThan(v) == (c > 0) &&
			u.LessThanOrEqual(v) == (c <= 0) && u.GreaterThanOrEqual(v) == (c >= 0), "u128-order-predicates")
		x := vU64()
		vAssert(vSign(u.Cmp64(x)) == vrCmp(v128(u), []uint64{x, 0}), "u128-cmp64")
		a, o, xo, nt := u.And(v), u.Or(v), u.Xor(v), u.Not()
		vAssert(a.w0 == u.w0&v.w0 && a.w1 == u.w1&v.w1 && o.w0 == u.w0|v.w0 && o.w1 == u.w1|v.w1 &&
			xo.w0 == u.w0^v.w0 && xo.w1 == u.w1^v.w1 && nt.w0 == ^u.w0 && nt.w1 == ^u.w1, "u128-bitwise")
		vAssert(u.IsZero() == vrIsZero(v128(u)) && u.Zero().IsZero() && u.MaxValue().Not().IsZero(), "u128-zero-max")
		s := u.Set64(x)
		vAssert(u.AsUint64() == u.w0 && s.w0 == x && s.w1 == 0, "u128-as-set")
	case 256:
		u, v := vSym256(), vSym256()
		c := vrCmp(v256(u), v256(v))
		vAssert(vSign(u.Cmp(v)) == c, "u256-cmp")
		vAssert(u.Equals(v) == (c == 0) && u.LessThan(v) == (c < 0) && u.GreaterThan(v) == (c > 0) &&
			u.LessThanOrEqual(v) == (c <= 0) && u.GreaterThanOrEqual(v) == (c >= 0), "u256-order-predicates")
		a, o, xo, nt := v256(u.And(v)), v256(u.Or(v)), v256(u.Xor(v)), v256(u.Not())
		uu, vv := v256(u), v256(v)
		ok := true
		for i := 0; i < 4; i++ {
			ok = ok && a[i] == uu[i]&vv[i] && o[i] == uu[i]|vv[i] && xo[i] == uu[i]^vv[i] && nt[i] == ^uu[i]
		}
		vAssert(ok, "u256-bitwise")
		vAssert(u.IsZero() == vrIsZero(v256(u)) && u.Zero().IsZero() && u.MaxValue().Not().IsZero(), "u256-zero-max")
		x := vU64()
		s := u.Set64(x)
		vAssert(u.AsUint64() == u.w0 && vrEq(v256(s), []uint64{x, 0, 0, 0}), "u256-as-set")
	default:
		vSkip()
	}
	vReach("end")
}

// ---------- casts: every value that fits the target is preserved; widening is exact ----------

func VerifC20_Casts() {
	a := vSym64()
	vAssert(a.Uint64() == a, "u64-to-u64")
	vAssert(vrEq(v128(a.Uint128()), []uint64{a.w0, 0}), "u64-to-u128")
	vAssert(vrEq(v256(a.Uint256()), []uint64{a.w0, 0, 0, 0}), "u64-to-u256")
	b := vSym128()
	vAssert(b.Uint128() == b, "u128-to-u128")
	vAssert(vrEq(v256(b.Uint256()), []uint64{b.w0, b.w1, 0, 0}), "u128-to-u256")
	vAssert(b.w1 != 0 || b.Uint64().w0 == b.w0, "u128-to-u64-when-fits")
	c := vSym256()
	vAssert(c.Uint256() == c, "u256-to-u256")
	vAssert(c.w3 != 0 || c.w2 != 0 || vrEq(v128(c.Uint128()), []uint64{c.w0, c.w1}), "u256-to-u128-when-fits")
	vAssert(c.w3 != 0 || c.w2 != 0 || c.w1 != 0 || c.Uint64().w0 == c.w0, "u256-to-u64-when-fits")
	x := vU64()
	vAssert(From64[Uint64](x).w0 == x && vrEq(v128(From64[Uint128](x)), []uint64{x, 0}) && vrEq(v256(From64[Uint256](x)), []uint64{x, 0, 0, 0}), "from64")
	vAssert(OneUint[Uint64]().w0 == 1 && vrEq(v128(OneUint[Uint128]()), []uint64{1, 0}) && vrEq(v256(OneUint[Uint256]()), []uint64{1, 0, 0, 0}), "one")
	vAssert(ZeroUint[Uint64]().IsZero() && ZeroUint[Uint128]().IsZero() && ZeroUint[Uint256]().IsZero(), "zero")
	vReach("end")
}

// ---------- multiplication: exact iff the product fits, overflow signalled iff it does not ----------

func VerifC20_Mul(width, mode, c0, c1, c2, c3 int) {
	vMulMode = mode
	lim := func(c int) uint64 {
		if mode == 2 {
			return vCat(c)
		}
		if c != 0 {
			vSkip()
		}
		return vU64()
	}
	switch width {
	case 64:
		if c1 != 0 || c2 != 0 || c3 != 0 {
			vSkip()
		}
		u, v := vSym64(), Uint64{w0: lim(c0)}
		full := vrMul(v64(u), v64(v))
		fits := full[1] == 0
		var r Uint64
		k := vCatch(func() { r = u.Mul(v) })
		vAssert((k == 0) == fits, "u64-mul-overflow-signal")
		vAssert(k != 0 || !fits || r.w0 == full[0], "u64-mul-exact")
		val, carry := u.Mul64(v)
		vAssert(val == full[0] && carry == full[1], "u64-mul64-halves")
	case 128:
		if c2 != 0 || c3 != 0 {
			vSkip()
		}
		u, v := vSym128(), Uint128{w1: lim(c1), w0: lim(c0)}
		full := vrMul(v128(u), v128(v))
		fits := full[2] == 0 && full[3] == 0
		var r Uint128
		k := vCatch(func() { r = u.Mul(v) })
		// The case "both high limbs non-zero" (always an overflow) is asserted under its own label: the
		// repository's own tests pin the silent wrap-around there (see known_findings.jsonl).
		bothHigh := u.w1 != 0 && v.w1 != 0
		vAssert(bothHigh || (k == 0) == fits, "u128-mul-overflow-signal")
		if mode != 0 { // reported from the exact-product harness only (genuine witnesses)
			vAssert(!bothHigh || k != 0, "u128-mul-overflow-signal-both-high-limbs")
		}
		vAssert(k != 0 || !fits || vrEq(v128(r), vTrunc(full, 2)), "u128-mul-exact")
		x := v.w0
		f2 := vrMul(v128(u), []uint64{x})
		k = vCatch(func() { r = u.Mul64(x) })
		vAssert((k == 0) == (f2[2] == 0), "u128-mul64-overflow-signal")
		vAssert(k != 0 || f2[2] != 0 || vrEq(v128(r), vTrunc(f2, 2)), "u128-mul64-exact")
	case 256:
		var u, v Uint256
		if mode == 0 {
			// uninterpreted products: the full 4x4 limb problem does not finish (adder-tree equivalence);
			// c0 selects which limbs may be non-zero (the others are 0), every 2x4 / 4x2 / 3x3 sub-shape
			u, v = vSym256(), vSym256()
			switch c0 {
			case 0:
				vAssume(u.w3 == 0 && u.w2 == 0)
			case 1:
				vAssume(v.w3 == 0 && v.w2 == 0)
			case 2:
				vAssume(u.w0 == 0 && u.w1 == 0)
			case 3:
				vAssume(v.w0 == 0 && v.w1 == 0)
			case 4:
				vAssume(u.w3 == 0 && v.w3 == 0)
			case 5:
				vAssume(u.w0 == 0 && v.w0 == 0)
			case 6:
				vAssume(u.w1 == 0 && u.w2 == 0 && v.w1 == 0 && v.w2 == 0)
			case 7: // no restriction (thorough only)
			default:
				vSkip()
			}
			if c1 != 0 || c2 != 0 || c3 != 0 {
				vSkip()
			}
		} else {
			u, v = vSym256(), Uint256{w3: lim(c3), w2: lim(c2), w1: lim(c1), w0: lim(c0)}
		}
		full := vrMul(v256(u), v256(v))
		fits := full[4] == 0 && full[5] == 0 && full[6] == 0 && full[7] == 0
		var r Uint256
		k := vCatch(func() { r = u.Mul(v) })
		vAssert((k == 0) == fits, "u256-mul-overflow-signal")
		vAssert(k != 0 || !fits || vrEq(v256(r), vTrunc(full, 4)), "u256-mul-exact")
	default:
		vSkip()
	}
	vReach("end")
}

// ---------- division ----------
// bits.Div64 is an uninterpreted pair (quotient, remainder) tied to the uninterpreted product by the division
// identity (ref.go), so what is decided here is the limb/carry composition around it.

// u = q*v + r with r < v, for a single-limb divisor
func VerifC20_Div64() {
	vMulMode = 0
	u := vSym128()
	v := vU64()
	var q Uint128
	var r uint64
	k := vCatch(func() { q, r = u.QuoRem64(v) })
	vAssert((k != 0) == (v == 0), "u128-quorem64-panics-iff-zero-divisor")
	if k == 0 {
		prod := vrMul(v128(q), []uint64{v}) // 3 limbs
		sum, c := vrAdd(prod, []uint64{r, 0, 0})
		vAssert(c == 0 && sum[2] == 0 && sum[1] == u.w1 && sum[0] == u.w0, "u128-quorem64-identity")
		vAssert(r < v, "u128-quorem64-remainder-range")
		d, m := u.Div64(v), u.Mod64(v)
		vAssert(d == q && m == r, "u128-div64-mod64-agree")
		// the general entry point with a divisor that fits one limb takes the same route
		qq, rr := u.QuoRem(Uint128{w1: 0, w0: v})
		vAssert(qq == q && rr.w1 == 0 && rr.w0 == r, "u128-quorem-small-divisor")
		vAssert(u.Div(Uint128{w1: 0, w0: v}) == q && u.Mod(Uint128{w1: 0, w0: v}).w0 == r, "u128-div-mod-small-divisor")
		vReach("divided")
	}
	vReach("end")
}

// two-limb divisor: the trial-quotient route.  u = q*v + r, r < v.
// One instance per number n of leading zeros of the divisor's high limb (n = 0..63 covers every divisor
// with a non-zero high limb).
func VerifC20_QuoRem128(n int) {
	vMulMode = 0
	u, v := vSym128(), vSym128()
	vAssume(v.w1>>(63-uint(n)) == 1)
	var q, r Uint128
	k := vCatch(func() { q, r = u.QuoRem(v) })
	vAssert(k == 0, "u128-quorem-no-panic-for-nonzero-divisor")
	if k == 0 {
		prod := vrMul(v128(q), v128(v)) // 4 limbs
		sum, c := vrAdd(prod, []uint64{r.w0, r.w1, 0, 0})
		vAssert(c == 0 && sum[3] == 0 && sum[2] == 0 && sum[1] == u.w1 && sum[0] == u.w0, "u128-quorem-identity")
		vAssert(vrCmp(v128(r), v128(v)) < 0, "u128-quorem-remainder-range")
		vReach("divided")
	}
	vReach("end")
}

// Uint256.Div (shift-and-subtract): panic iff v = 0; exact quotient on three operand families whose loops
// are short: tiny operands, divisors with the top bit set (quotient 0 or 1: the doubling of the divisor would
// wrap), and divisors >= 2^254 (quotient <= 3, reference = repeated subtraction).
func VerifC20_Div256(family int) {
	var u, v Uint256
	switch family {
	case 0:
		a, b := vU64(), vU64()
		vAssume(a < 32 && b < 32)
		u, v = Uint256{0, 0, 0, a}, Uint256{0, 0, 0, b}
		var q Uint256
		k := vCatch(func() { q = u.Div(v) })
		vAssert((k != 0) == (b == 0), "u256-div-panics-iff-zero-divisor")
		if k == 0 {
			vAssert(q.w3 == 0 && q.w2 == 0 && q.w1 == 0 && q.w0 == a/b, "u256-div-small-exact")
			vReach("divided")
		}
	case 1:
		u, v = vSym256(), vSym256()
		vAssume(v.w3>>63 == 1)
		var q Uint256
		k := vCatch(func() { q = u.Div(v) })
		vAssert(k == 0, "u256-div-no-panic")
		if k == 0 {
			want := uint64(0)
			if vrCmp(v256(u), v256(v)) >= 0 {
				want = 1
			}
			vAssert(vrEq(v256(q), []uint64{want, 0, 0, 0}), "u256-div-top-bit-divisor-exact")
			vReach("divided")
		}
	case 2:
		u, v = vSym256(), vSym256()
		vAssume(v.w3>>62 != 0)
		var q Uint256
		k := vCatch(func() { q = u.Div(v) })
		vAssert(k == 0, "u256-div-no-panic")
		if k == 0 {
			rem := v256(u)
			cnt := uint64(0)
			for i := 0; i < 4; i++ {
				d, b := vrSub(rem, v256(v))
				if b == 0 {
					rem = d
					cnt++
				}
			}
			vAssert(vrEq(v256(q), []uint64{cnt, 0, 0, 0}), "u256-div-large-divisor-exact")
			vReach("divided")
		}
	default:
		vSkip()
	}
	vReach("end")
}
