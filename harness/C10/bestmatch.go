package obiapat

import (
	"unsafe"

	"git.metabarcoding.org/obitools/obitools4/obitools4/pkg/obiseq"
)

// C10 (BestMatch, the Go part around the C matcher): with indels allowed BestMatch re-aligns the pattern on a
// window around the best hit (obialign.LocatePattern) and reports that span.  The C matcher is replaced by its
// contract for one hit - some window start b0 with 1 or 2 errors - and the real re-alignment runs from its SSA.
// Every reported span lies inside the sequence and its error count is the edit distance between the pattern
// and that span.  A model is materialised natively: a read carrying the pattern with one difference, the real
// matcher, the same assertion.

//verif:stub (MOD/pkg/obiapat.ApatPattern).FindAllIndex = vOneHit
//verif:stub (MOD/pkg/obiapat.ApatSequence).Len = vBMSeqLen

var (
	vBMHit [3]int
	vBMLen int
)

func vOneHit(pattern ApatPattern, sequence ApatSequence, begin, length int) [][3]int {
	return [][3]int{vBMHit}
}

func vBMSeqLen(sequence ApatSequence) int { return vBMLen }

func vrEdit(p, s []byte) int {
	n, m := len(p), len(s)
	prev := make([]int, m+1)
	cur := make([]int, m+1)
	for j := 0; j <= m; j++ {
		prev[j] = j
	}
	for i := 1; i <= n; i++ {
		cur[0] = i
		for j := 1; j <= m; j++ {
			c := prev[j-1]
			if p[i-1] != s[j-1] {
				c++
			}
			if prev[j]+1 < c {
				c = prev[j] + 1
			}
			if cur[j-1]+1 < c {
				c = cur[j-1] + 1
			}
			cur[j] = c
		}
		prev, cur = cur, prev
	}
	return prev[m]
}

func VerifC10_BestMatch(lp, L int) {
	if lp < 2 || L <= lp { // the re-alignment is defined for sequences longer than the pattern
		vSkip()
		return
	}
	p := vBytes(lp, "acgt")
	s := vBytes(L, "acgt")
	// the C matcher reports a window by its end: with a deletion at the very beginning of the read the window
	// starts up to nerr positions before the read
	b0, nerr := vInt(-2, L-lp), vInt(1, 2)
	if !vSymbolic() {
		vMaterialiseBestMatch(lp, L)
		return
	}
	vAssume(b0 >= -nerr)
	cp := &_Ctype_Pattern{}
	cp.patlen = _Ctype_int32_t(lp)
	cp.maxerr = 2
	cp.hasIndel = true
	pbuf := append([]byte{}, p...)
	cp.cpat = (*_Ctype_char)(unsafe.Pointer(&pbuf[0]))
	pat := ApatPattern{&_ApatPattern{pointer: cp, pattern: string(p)}}
	seq := ApatSequence{&_ApatSequence{reference: obiseq.NewBioSequence("s", append([]byte{}, s...), "")}}
	vBMHit, vBMLen = [3]int{b0, b0 + lp, nerr}, L
	start, end, ne, matched := pat.BestMatch(seq, 0, -1)
	vAssert(matched, "bestmatch-an-occurrence-within-the-budget-is-reported")
	if matched {
		inside := 0 <= start && start <= end && end <= L
		vAssert(inside, "bestmatch-span-inside-the-sequence")
		if inside {
			ok := false
			for a := 0; a <= L; a++ {
				for b := a; b <= L; b++ {
					if a == start && b == end {
						ok = ne == vrEdit(p, s[a:b])
					}
				}
			}
			vAssert(ok, "bestmatch-error-count-is-the-edit-distance-to-the-reported-span")
		}
	}
	vReach("end")
}

// native only: the pattern with one substitution, deletion or insertion inside random flanks, the real matcher
func vMaterialiseBestMatch(lp, L int) {
	alphabet := []byte("acgt")
	rnd := uint64(0x9E3779B97F4A7C15)
	next := func() uint64 {
		rnd ^= rnd << 13
		rnd ^= rnd >> 7
		rnd ^= rnd << 17
		return rnd
	}
	for try := 0; try < 400; try++ {
		plen := 8 + int(next()%6)
		p := make([]byte, plen)
		for i := range p {
			p[i] = alphabet[next()%4]
		}
		v := append([]byte{}, p...)
		pos := 1 + int(next()%uint64(plen-2))
		switch try % 3 {
		case 0:
			v[pos] = alphabet[(vIdxOf(alphabet, v[pos])+1+int(next()%3))%4]
		case 1:
			v = append(v[:pos], v[pos+1:]...)
		default:
			v = append(v[:pos], append([]byte{alphabet[next()%4]}, v[pos:]...)...)
		}
		left, right := int(next()%8), int(next()%8)
		if try%4 == 0 {
			right = 0 // the occurrence ends the read
		}
		if try%4 == 1 {
			left = 0 // the occurrence begins the read
		}
		var s []byte
		for i := 0; i < left; i++ {
			s = append(s, alphabet[next()%4])
		}
		s = append(s, v...)
		for i := 0; i < right; i++ {
			s = append(s, alphabet[next()%4])
		}
		if len(s) <= plen {
			continue // the re-alignment is defined for reads longer than the pattern (as every real read is)
		}
		pat, err := MakeApatPattern(string(p), 2, true)
		if err != nil {
			continue
		}
		seq, err := MakeApatSequence(obiseq.NewBioSequence("s", append([]byte{}, s...), ""), false)
		if err != nil {
			continue
		}
		start, end, ne, matched := pat.BestMatch(seq, 0, -1)
		if !matched {
			// the read holds the pattern with one difference, well within the budget of 2
			vObserve("materialised-at-try", try)
			vAssert(false, "bestmatch-an-occurrence-within-the-budget-is-reported")
			return
		}
		if !(0 <= start && start <= end && end <= len(s)) {
			vAssert(false, "bestmatch-span-inside-the-sequence")
			return
		}
		if ne != vrEdit(p, s[start:end]) {
			vObserve("materialised-at-try", try)
			vAssert(false, "bestmatch-error-count-is-the-edit-distance-to-the-reported-span")
			return
		}
	}
}

func vIdxOf(al []byte, c byte) int {
	for i, x := range al {
		if x == c {
			return i
		}
	}
	return 0
}
