package obialign

// C10 (Go part): LocatePattern re-aligns a primer inside a window when indels are allowed.
// For every pattern (length lp) and every longer sequence (length ls) over acgtn:
// the reported span lies inside the sequence, the reported error count is the edit distance between the
// pattern and that span (IUPAC compatible symbols match), and it is minimal over all substrings.

// edit distance between p and s[from:to] with IUPAC compatibility
func vrEditSub(p, s []byte, from, to int) int {
	n, m := len(p), to-from
	D := make([]int, (n+1)*(m+1))
	w := m + 1
	for j := 0; j <= m; j++ {
		D[j] = j
	}
	for i := 0; i <= n; i++ {
		D[i*w] = i
	}
	for i := 1; i <= n; i++ {
		for j := 1; j <= m; j++ {
			d := D[(i-1)*w+j-1]
			if !vrSame(p[i-1], s[from+j-1]) {
				d++
			}
			if x := D[(i-1)*w+j] + 1; x < d {
				d = x
			}
			if x := D[i*w+j-1] + 1; x < d {
				d = x
			}
			D[i*w+j] = d
		}
	}
	return D[n*w+m]
}

func VerifC10_Locate(lp, ls int) {
	if lp < 2 || ls <= lp {
		vSkip()
	}
	p := vBytes(lp, "acgtn")
	s := vBytes(ls, "acgtn")
	var start, end, nerr int
	k := vCatch(func() { start, end, nerr = LocatePattern("id", p, s) })
	vAssert(k == 0, "locate-no-panic")
	if k != 0 {
		return
	}
	inside := 0 <= start && start <= end && end <= ls
	vAssert(inside, "locate-span-inside-sequence")
	best := lp + ls
	spanErr := -1
	for a := 0; a <= ls; a++ {
		for b := a; b <= ls; b++ {
			d := vrEditSub(p, s, a, b)
			if d < best {
				best = d
			}
			if a == start && b == end {
				spanErr = d
			}
		}
	}
	vAssert(nerr == best, "locate-errors-minimal-over-substrings")
	vAssert(!inside || nerr == spanErr, "locate-errors-equal-distance-to-reported-span")
	vReach("end")
}
