package obiclean

import "git.metabarcoding.org/obitools/obitools4/obitools4/pkg/obiseq"

// C13 (sequential semantics): within one sample, sorted by increasing count as BuildSeqGraph does, the
// one-difference graph links a sequence to a strictly more abundant one exactly when they are at edit distance
// one; SonCount is the in-degree; the status is internal / head / singleton accordingly; the edge reports the
// mutation.  Three sequences of lengths (l0,l1,l2) over acgt with symbolic counts.

func vrEdit(a, b []byte) int {
	n, m := len(a), len(b)
	D := make([]int, (n+1)*(m+1))
	w := m + 1
	for j := 0; j <= m; j++ {
		D[j] = j
	}
	for i := 0; i <= n; i++ {
		D[i*w] = i
	}
	for i := 1; i <= n; i++ {
		for j := 1; j <= m; j++ {
			d := D[(i-1)*w+j-1]
			if a[i-1] != b[j-1] {
				d++
			}
			if x := D[(i-1)*w+j] + 1; x < d {
				d = x
			}
			if x := D[i*w+j-1] + 1; x < d {
				d = x
			}
			D[i*w+j] = d
		}
	}
	return D[n*w+m]
}

func VerifC13_Graph(l0, l1, l2 int) { vGraph(l0, l1, l2, 1) }

// the same with several workers (goroutines run one after the other: what the number of workers changes
// deterministically - which lines each one handles - is covered, their interleavings are not)
func VerifC13_GraphWorkers(l0, l1, l2, workers int) { vGraph(l0, l1, l2, workers) }

func vGraph(l0, l1, l2, workers int) {
	lens := []int{l0, l1, l2}
	raw := make([][]byte, 3)
	counts := make([]int, 3)
	for i := range raw {
		raw[i] = vBytes(lens[i], "acgt")
		counts[i] = vInt(1, 9)
	}
	vAssume(counts[0] <= counts[1] && counts[1] <= counts[2]) // sorted sample
	seqs := make([]*seqPCR, 3)
	for i := range seqs {
		seqs[i] = &seqPCR{Count: counts[i], Sequence: obiseq.NewBioSequence("s", raw[i], "")}
	}
	buildSamplePairs(&seqs, workers)

	okEdges, okSons, okStatus, okMut := true, true, true, true
	for j := 0; j < 3; j++ {
		in := 0
		for i := 0; i < 3; i++ {
			if i == j {
				continue
			}
			want := counts[j] > counts[i] && vrEdit(raw[i], raw[j]) == 1
			have := 0
			for _, e := range seqs[i].Edges {
				if e.Father == j {
					have++
					// the reported mutation: at Pos the father holds From and the son holds To ('-' = gap)
					son, father := raw[i], raw[j]
					good := e.Dist == 1 && e.Pos >= 0
					if good {
						switch {
						case len(son) == len(father):
							good = e.Pos < len(son) && father[e.Pos] == e.From && son[e.Pos] == e.To && e.From != e.To
						case len(son) == len(father)+1:
							good = e.Pos < len(son) && e.From == '-' && son[e.Pos] == e.To
						default:
							good = e.Pos < len(father) && e.To == '-' && father[e.Pos] == e.From
						}
					}
					okMut = okMut && good
				}
			}
			okEdges = okEdges && ((want && have == 1) || (!want && have == 0))
			if want {
				in++
			}
		}
		okSons = okSons && seqs[j].SonCount == in
	}
	for i := 0; i < 3; i++ {
		out := 0
		in := 0
		for j := 0; j < 3; j++ {
			if j != i && counts[j] > counts[i] && vrEdit(raw[i], raw[j]) == 1 {
				out++
			}
			if j != i && counts[i] > counts[j] && vrEdit(raw[j], raw[i]) == 1 {
				in++
			}
		}
		st := ObicleanStatus(seqs[i])
		switch {
		case out > 0:
			okStatus = okStatus && st == "i"
		case in > 0:
			okStatus = okStatus && st == "h"
		default:
			okStatus = okStatus && st == "s"
		}
	}
	vAssert(okEdges, "clean-edge-iff-more-abundant-and-one-difference")
	vAssert(okSons, "clean-soncount-is-the-in-degree")
	vAssert(okStatus, "clean-status-internal-head-singleton")
	vAssert(okMut, "clean-edge-reports-the-mutation")
	vReach("end")
}
