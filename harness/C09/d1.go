package obialign

import "git.metabarcoding.org/obitools/obitools4/obitools4/pkg/obiseq"

// unit-cost edit distance (substitution, insertion, deletion), plain byte equality
func vrEdit(a, b []byte) int {
	n, m := len(a), len(b)
	D := make([]int, (n+1)*(m+1))
	w := m + 1
	for j := 0; j <= m; j++ {
		D[j] = j
	}
	for i := 0; i <= n; i++ {
		D[i*w] = i
	}
	for i := 1; i <= n; i++ {
		for j := 1; j <= m; j++ {
			d := D[(i-1)*w+j-1]
			if a[i-1] != b[j-1] {
				d++
			}
			if x := D[(i-1)*w+j] + 1; x < d {
				d = x
			}
			if x := D[i*w+j-1] + 1; x < d {
				d = x
			}
			D[i*w+j] = d
		}
	}
	return D[n*w+m]
}

func vrEqualBytes(a, b []byte) bool {
	if len(a) != len(b) {
		return false
	}
	ok := true
	for i := range a {
		ok = ok && a[i] == b[i]
	}
	return ok
}

// C09: the one-difference test: 0 <=> identical, 1 <=> edit distance 1 (and the reported position and
// symbols reproduce the edit), -1 otherwise; symmetric verdicts.
func VerifC09_D1Or0(lA, lB int) {
	a := vBytes(lA, "acgt")
	b := vBytes(lB, "acgt")
	sa := obiseq.NewBioSequence("a", a, "")
	sb := obiseq.NewBioSequence("b", b, "")
	d, pos, c1, c2 := D1Or0(sa, sb)
	ed := vrEdit(a, b)
	switch {
	case ed == 0:
		vAssert(d == 0, "d1-zero-iff-identical")
		vReach("identical")
	case ed == 1:
		vAssert(d == 1, "d1-one-iff-distance-one")
		if d == 1 {
			// applying the reported edit to a must give b
			ok := pos >= 0 && pos < max(lA, lB)
			vAssert(ok, "d1-position-in-range")
			if ok {
				switch {
				case lA == lB:
					// substitution at pos: a[pos] = c1, b[pos] = c2
					good := pos < lA && a[pos] == c1 && b[pos] == c2 && c1 != c2
					vAssert(good, "d1-edit-reproduces-substitution")
				case lA == lB+1:
					// deletion of a[pos]: c1 = a[pos], c2 = '-', and a without pos is b
					good := pos < lA && c2 == '-' && a[pos] == c1
					for i := 0; i < lB; i++ {
						x := a[i]
						if i >= pos {
							x = a[i+1]
						}
						good = good && b[i] == x
					}
					vAssert(good, "d1-edit-reproduces-deletion")
				default:
					good := pos < lB && c1 == '-' && b[pos] == c2
					for i := 0; i < lA; i++ {
						x := b[i]
						if i >= pos {
							x = b[i+1]
						}
						good = good && a[i] == x
					}
					vAssert(good, "d1-edit-reproduces-insertion")
				}
			}
		}
		vReach("distance-one")
	default:
		vAssert(d == -1, "d1-minus-one-beyond-one-difference")
		vReach("beyond")
	}
	d2, _, _, _ := D1Or0(sb, sa)
	vAssert(d2 == d, "d1-symmetric-verdict")
	vReach("end")
}
