package obialign

// C09: FastLCSEGFScoreByte against a textbook full-matrix dynamic program, for every pair of sequences of the
// instance's lengths over the instance's alphabet, every error bound, dirty / absent / too-small work buffers.

// independent IUPAC compatibility: bit sets a=1 c=2 g=4 t=8
func vrIupacBits(c byte) byte {
	if c >= 'A' && c <= 'Z' {
		c += 'a' - 'A'
	}
	switch c {
	case 'a':
		return 1
	case 'c':
		return 2
	case 'g':
		return 4
	case 't', 'u':
		return 8
	case 'r':
		return 1 | 4
	case 'y':
		return 2 | 8
	case 's':
		return 2 | 4
	case 'w':
		return 1 | 8
	case 'k':
		return 4 | 8
	case 'm':
		return 1 | 2
	case 'b':
		return 2 | 4 | 8
	case 'd':
		return 1 | 4 | 8
	case 'h':
		return 1 | 2 | 8
	case 'v':
		return 1 | 2 | 4
	case 'n':
		return 15
	}
	return 0
}

func vrSame(a, b byte) bool {
	x, y := vrIupacBits(a), vrIupacBits(b)
	if x != 0 && y != 0 {
		return x&y != 0
	}
	return a == b
}

// textbook DP: max number of matches, then min alignment length among the maximal ones
func vrLCS(a, b []byte) (int, int) {
	n, m := len(a), len(b)
	S := make([]int, (n+1)*(m+1))
	L := make([]int, (n+1)*(m+1))
	w := m + 1
	for j := 0; j <= m; j++ {
		L[j] = j
	}
	for i := 0; i <= n; i++ {
		L[i*w] = i
	}
	for i := 1; i <= n; i++ {
		for j := 1; j <= m; j++ {
			s, l := S[(i-1)*w+j-1], L[(i-1)*w+j-1]+1
			if vrSame(a[i-1], b[j-1]) {
				s++
			}
			s2, l2 := S[(i-1)*w+j], L[(i-1)*w+j]+1
			if s2 > s || (s2 == s && l2 < l) {
				s, l = s2, l2
			}
			s3, l3 := S[i*w+j-1], L[i*w+j-1]+1
			if s3 > s || (s3 == s && l3 < l) {
				s, l = s3, l3
			}
			S[i*w+j], L[i*w+j] = s, l
		}
	}
	return S[n*w+m], L[n*w+m]
}

func vAlphabet(k int) string {
	switch k {
	case 0:
		return "acgt"
	case 1:
		return "acgtnryAC"
	}
	vSkip()
	return ""
}

// bufMode: 0 nil buffer, 1 large dirty buffer (arbitrary previous contents), 2 too-small dirty buffer
func VerifC09_LCS(lA, lB, maxErr, alpha, bufMode int) {
	a := vBytes(lA, vAlphabet(alpha))
	b := vBytes(lB, vAlphabet(alpha))
	var buf *[]uint64
	switch bufMode {
	case 1:
		d := vU64s(6 * (4*(lA+lB) + 12))
		buf = &d
	case 2:
		d := vU64s(3)
		buf = &d
	}
	s, l, _ := FastLCSEGFScoreByte(a, b, maxErr, false, buf)
	rs, rl := vrLCS(a, b)
	if maxErr < 0 || rl-rs <= maxErr {
		vAssert(s == rs && l == rl, "lcs-exact-within-bound")
		vReach("within-bound")
	} else {
		vAssert(s == -1 || l-s > maxErr, "lcs-no-spurious-answer-beyond-bound")
		vReach("beyond-bound")
	}
	// the kernel is symmetric in its arguments
	s2, l2, _ := FastLCSEGFScoreByte(b, a, maxErr, false, nil)
	vAssert(s2 == s && l2 == l, "lcs-argument-symmetry")
	vReach("end")
}

// end-gap-free mode: score = best number of matches when the gaps at both ends of the shorter sequence are free;
// not found only when the true number of inner errors exceeds the bound.  (length/end are only range checked.)
func VerifC09_EGF(lA, lB, maxErr int) {
	a := vBytes(lA, "acgt")
	b := vBytes(lB, "acgt")
	s, l, e := FastLCSEGFScoreByte(a, b, maxErr, true, nil)
	rs, _ := vrLCS(a, b)
	vAssert(s <= rs, "egf-score-never-above-lcs")
	vAssert(s == -1 || (s >= 0 && l >= s && e >= 0 && e <= max(lA, lB)), "egf-outputs-in-range")
	if maxErr < 0 {
		vAssert(s == rs, "egf-unbounded-score-is-lcs")
	}
	vReach("end")
}
