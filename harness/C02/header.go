package obiformats

import "git.metabarcoding.org/obitools/obitools4/obitools4/pkg/obiseq"

// C02 (1): the title-line scanner that delimits the JSON annotation object.
// For every header of n bytes over { } " \ : , a space that starts with an object as a JSON writer produces
// it (strings are "(char|\any)*", braces nest outside strings, no backslash outside strings) followed by an
// arbitrary tail: the slice handed to the JSON decoder is exactly that object and the returned definition is
// the trimmed tail - so no annotation is lost and the definition is unchanged.

//verif:stub github.com/goccy/go-json.Unmarshal = vUnmarshal

var vGot []byte
var vGotCalls int

// stands for go-json's Unmarshal (reflection/unsafe) in the symbolic run: records what it is given
func vUnmarshal(data []byte, v interface{}) error {
	vGot = make([]byte, len(data))
	copy(vGot, data)
	vGotCalls++
	return nil
}

// reference: end index of the JSON object starting at h[0] == '{', -1 if h does not start with a valid object
// of the grammar   object = '{' [ pair { ',' pair } ] '}' ; pair = string ':' (string | object) ;
// string = '"' { char | '\"' | '\\' } '"'   (spaces allowed between tokens) - what a JSON writer emits for
// string-valued and nested annotations.
func vrObjectEnd(h []byte) int {
	const (
		keyOrClose = iota // after '{'
		key               // after ','
		inKey
		colon
		value
		inValue
		after // after a value: ',' or '}'
	)
	st := keyOrClose
	depth := 0
	esc, bad := false, false
	end := -1
	for i := 0; i < len(h); i++ {
		c := h[i]
		if end >= 0 || bad {
			continue
		}
		if i == 0 {
			if c != '{' {
				bad = true
			}
			depth = 1
			continue
		}
		switch st {
		case inKey, inValue:
			switch {
			case esc:
				if c != '"' && c != '\\' {
					bad = true
				}
				esc = false
			case c == '\\':
				esc = true
			case c == '"':
				if st == inKey {
					st = colon
				} else {
					st = after
				}
			}
		case keyOrClose:
			switch c {
			case ' ':
			case '"':
				st = inKey
			case '}':
				depth--
				if depth == 0 {
					end = i
				}
				st = after
			default:
				bad = true
			}
		case key:
			switch c {
			case ' ':
			case '"':
				st = inKey
			default:
				bad = true
			}
		case colon:
			switch c {
			case ' ':
			case ':':
				st = value
			default:
				bad = true
			}
		case value:
			switch c {
			case ' ':
			case '"':
				st = inValue
			case '{':
				depth++
				st = keyOrClose
			default:
				bad = true
			}
		case after:
			switch c {
			case ' ':
			case ',':
				st = key
			case '}':
				depth--
				if depth == 0 {
					end = i
				}
			default:
				bad = true
			}
		}
	}
	if bad {
		return -1
	}
	return end
}

func VerifC02_Scanner(n int) {
	h := vBytes(n, "{}\"\\:,a ")
	vAssume(n > 0 && h[0] == '{')
	e := vrObjectEnd(h)
	vAssume(e >= 1)
	vGot, vGotCalls = nil, 0
	annot := obiseq.Annotation{}
	var rest string
	k := vCatch(func() { rest = _parse_json_header_(string(h), annot) })
	// expected definition: the tail after the object, trimmed of spaces
	a, b := e+1, n
	for a < b && h[a] == ' ' {
		a++
	}
	for b > a && h[b-1] == ' ' {
		b--
	}
	restOK := len(rest) == b-a
	if restOK {
		for i := 0; i < b-a; i++ {
			restOK = restOK && rest[i] == h[a+i]
		}
	}
	ok := k == 0 && restOK
	if vSymbolic() {
		gotOK := vGotCalls == 1 && len(vGot) == e+1
		if gotOK {
			for i := 0; i <= e; i++ {
				gotOK = gotOK && vGot[i] == h[i]
			}
		}
		ok = ok && gotOK
	}
	vAssert(ok, "scanner-delimits-the-object-and-keeps-the-definition")
	if e >= 6 {
		vReach("object-with-content")
	}
	vReach("end")
}
