package obiformats

import (
	"bytes"

	"git.metabarcoding.org/obitools/obitools4/obitools4/pkg/obioptions"
	"git.metabarcoding.org/obitools/obitools4/obitools4/pkg/obiseq"
)

// C02 (2): text round trip.  Records with symbolic nucleotides and symbolic qualities (0..93) are formatted by
// the FASTQ / FASTA formatters and parsed back by the chunk parsers: identifiers, nucleotides and qualities
// come back unchanged (quality characters '@' = 31+33 and '+' = 10+33 may open a quality line); sequences
// longer than a line are folded at 60 columns and unfolded without loss.

func vNoHeader(*obiseq.BioSequence) string { return "" }

func vSameBytes(a, b []byte) bool {
	if len(a) != len(b) {
		return false
	}
	ok := true
	for i := range a {
		ok = ok && a[i] == b[i]
	}
	return ok
}

// nrec records of L bases each; shift: 33 or 64 (output and input offset)
func VerifC02_FastqRoundTrip(nrec, L, shift int) {
	if nrec < 1 || nrec > 2 || L < 1 || (shift != 33 && shift != 64) {
		vSkip()
	}
	bases := make([][]byte, nrec)
	quals := make([][]byte, nrec)
	for r := 0; r < nrec; r++ {
		bases[r] = vBytes(L, "acgtn")
		quals[r] = vBytes(L, "")
		for i := range quals[r] {
			vAssume(quals[r][i] <= 93)
		}
	}
	obioptions.SetOutputQualityShift(shift)
	var text bytes.Buffer
	for r := 0; r < nrec; r++ {
		s := obiseq.NewBioSequenceWithQualities(string([]byte{byte('x' + r)}), bases[r], "", quals[r])
		text.WriteString(FormatFastq(s, nil))
	}
	var recs obiseq.BioSequenceSlice
	kind := vCatch(func() {
		recs, _ = FastqChunkParser(byte(shift), true)("src", bytes.NewReader(text.Bytes()))
	})
	vAssert(kind == 0, "fastq-formatted-records-are-accepted-by-the-parser")
	if kind != 0 {
		return
	}
	vAssert(len(recs) == nrec, "fastq-round-trip-record-count")
	if len(recs) == nrec {
		ok := true
		for r := 0; r < nrec; r++ {
			ok = ok && recs[r].Id() == string([]byte{byte('x' + r)})
			ok = ok && vSameBytes(recs[r].Sequence(), bases[r]) && vSameBytes(recs[r].Qualities(), quals[r])
		}
		vAssert(ok, "fastq-round-trip-ids-bases-qualities")
	}
	vReach("end")
}

// one record of L bases through the FASTA formatter (60 column folding) and parser
func VerifC02_FastaRoundTrip(L int) {
	if L < 1 {
		vSkip()
	}
	bases := vBytes(L, "acgtn")
	s := obiseq.NewBioSequence("x", bases, "")
	text := FormatFasta(s, vNoHeader)
	// folding: no line longer than 60, no empty line, no trailing newline
	col, okFold := 0, true
	lines := 0
	for i := 0; i < len(text); i++ {
		if text[i] == '\n' {
			okFold = okFold && col > 0 && (lines == 0 || col <= 60)
			col = 0
			lines++
		} else {
			col++
		}
	}
	okFold = okFold && col > 0 && col <= 60
	vAssert(okFold, "fasta-lines-folded-at-60-without-empty-line")
	var recs obiseq.BioSequenceSlice
	kind := vCatch(func() {
		recs, _ = FastaChunkParser()("src", bytes.NewReader([]byte(text+"\n")))
	})
	vAssert(kind == 0, "fasta-formatted-record-is-accepted-by-the-parser")
	if kind == 0 {
		vAssert(len(recs) == 1 && recs[0].Id() == "x" && vSameBytes(recs[0].Sequence(), bases), "fasta-round-trip-id-and-bases")
	}
	vReach("end")
}
